"""C19  Parse errors carry a location and truncation is reported as EOF.

  R-CATEGORY      Error::classify maps every ErrorCode to the documented category (Eof* -> Eof,
                  Io -> Io, all others Syntax); From<Error> for io::Error maps Syntax -> InvalidData,
                  Eof -> UnexpectedEof, Io(e) -> e; same for serde_lexpr::Error (+ Data -> InvalidData);
                  syntax/EOF errors are built only by Error::syntax with Some(location), Io errors only
                  by Error::io from an io::Error.
  R-EOF-CONFLATE  on the end-of-input outcome of every read (and of parse_whitespace / next_value /
                  next_datum returning Ok(None)), every ErrorCode constructed before the next read
                  is an Eof* code.
Not decided: the numeric bounds of line/column.
"""
from .. import common, facts as F, lex, sim
from ..sim import Adt, Opq, UNK

OPAQUE_READERS = ("parse::Parser::<R>::parse_whitespace", "parse::Parser::<R>::next_value",
                  "parse::Parser::<R>::next_datum")


def run(ctx):
    db = ctx.facts(["poly"])
    lexpr = db.crate("lexpr")
    serde = db.crate("serde_lexpr")
    ctx.explanation = (
        "R-CATEGORY extracts, by constant propagation of each ErrorCode / ErrorImpl variant through the classify and "
        "From<Error> for io::Error functions, the complete variant -> category -> io::ErrorKind maps and compares them "
        "with the documented ones; construction sites of ErrorImpl are audited (location present for syntax/EOF "
        "errors, io::Error payload for Io). R-EOF-CONFLATE injects the end-of-input outcome at the k-th read of every "
        "lexer function (earlier reads return an unknown byte, so all arms are followed) and collects every ErrorCode "
        "constructed before the next read: a non-Eof code there means a truncated input is reported as malformed. "
        "Both are facts about all inputs reaching those sites. Line/column arithmetic is not decided.")
    ctx.trusted = ["rustc nightly MIR construction", "std::io::Error::new keeps the given kind"]
    category(ctx, lexpr, serde)
    eof_conflate(ctx, lexpr)
    # the line of a location counts line feeds and nothing else, for stream and slice input alike (shared with C11)
    from . import c11
    c11.column_unit(ctx, lexpr)
    charname_eof(ctx, lexpr)


def _variant_result(S, fn, hookmap):
    return S.run(fn)


def category(ctx, lexpr, serde):
    r = ctx.rule("R-CATEGORY", "classify / io::Error conversion implement the documented category and kind maps")
    codes = lexpr.adts.get("parse::error::ErrorCode")
    cats = lexpr.variant_names("parse::error::Category")
    f = lexpr.fn("parse::error::Error::classify")
    conv = lexpr.fn("parse::error::<impl std::convert::From<parse::error::Error> for std::io::Error>::from")
    if not codes or not cats or f is None or conv is None:
        r.anchor_missing("parse::error::{ErrorCode, Category, Error::classify, From<Error> for io::Error}")
        return
    r.floor("error-codes", len(codes["variants"]))
    for v in codes["variants"]:
        name = v["name"]
        want = "Io" if name == "Io" else ("Eof" if name.startswith("Eof") else "Syntax")
        code = Adt("parse::error::ErrorCode", v["idx"], [Opq("payload")] * len(v["fields"]))

        def opaque(o, code=code):
            if o.path and o.path[-1] == "code":
                return code
            return None

        # classify and every helper it is split into (same module) are looked through
        S = sim.Sim([lexpr], hooks={"opaque": opaque},
                    inline=lambda a, b: b.crate == lexpr.name and b.file.endswith("parse/error.rs"))
        ps = [p for p in S.run(f) if p.end == "return"]
        got = {cats[p.ret.variant] if isinstance(p.ret, Adt) and p.ret.variant < len(cats) else "?" for p in ps}
        if got == {want}:
            r.ok("classify(%s) = %s" % (name, want), f)
        else:
            r.violation(f.path, "classify:%s" % name,
                        "Error::classify maps ErrorCode::%s to %s; documented category is %s" % (name, sorted(got), want), f.loc())
        # conversion to io::Error
        ps = S.run(conv)
        kinds = set()
        for p in ps:
            if p.end != "return":
                if p.end == "panic":
                    kinds.add("panic")
                continue
            news = p.calls("std::io::Error::new")
            if news:
                a = news[-1][6][0]
                kinds.add(a.vname if isinstance(a, Adt) and a.vname else "?")
            else:
                kinds.add("payload" if isinstance(p.ret, Opq) and p.ret.root == "payload" else "other:%r" % (p.ret,))
        wantk = {"Io": "payload", "Eof": "UnexpectedEof", "Syntax": "InvalidData"}[want]
        if kinds == {wantk}:
            r.ok("io::Error::from(%s) -> %s" % (name, wantk), conv)
        else:
            r.violation(conv.path, "io-kind:%s" % name,
                        "converting ErrorCode::%s to io::Error yields %s; documented is %s" % (name, sorted(kinds), wantk), conv.loc())

    # construction of ErrorImpl: only inside the error module, and the two crate-visible constructors build what
    # their names say (evaluated abstractly, so helper constructors such as a shared `Error::new` are looked through)
    n = 0
    for fn in lexpr.fns:
        for bi, b in enumerate(fn.blocks):
            for s in b["stmts"]:
                if s["k"] == "assign" and s["rv"]["k"] == "agg" and s["rv"].get("adt") == "parse::error::ErrorImpl":
                    n += 1
                    if not fn.file.endswith("parse/error.rs"):
                        r.violation(fn.path, "errorimpl-built-elsewhere",
                                    "%s builds an ErrorImpl outside the error module" % fn.path, fn.loc(s.get("line")))
    r.floor("errorimpl-sites", n)
    einl = lambda a, b: b.crate == lexpr.name and b.file.endswith("parse/error.rs")
    names = [x["name"] for x in lexpr.adts["parse::error::ErrorImpl"]["variants"][0]["fields"]]

    def built(fnp, args):
        g = lexpr.fn(fnp)
        if g is None:
            r.anchor_missing(fnp)
            return None, None
        S = sim.Sim([lexpr], inline=einl)
        outs = []
        for p in S.run(g, args=args):
            if p.end != "return":
                continue
            v = p.ret
            # Error { err: Box<ErrorImpl> }: find the ErrorImpl aggregate handed to Box::new
            impl = None
            if isinstance(v, Adt) and v.fields and isinstance(v.fields[0], Adt) and v.fields[0].adt == "parse::error::ErrorImpl":
                impl = v.fields[0]          # the simulator treats Box::new as transparent
            outs.append(impl)
        return g, outs

    code_arg = Adt("parse::error::ErrorCode", 1, [], "probe")
    g, outs = built("parse::error::Error::syntax", {1: code_arg, 2: 7, 3: 9})
    if g is not None:
        okv = outs and all(o is not None and o.fields[names.index("code")] is code_arg
                           and isinstance(o.fields[names.index("location")], Adt) and o.fields[names.index("location")].variant == 1
                           for o in outs)
        if okv:
            r.ok("Error::syntax stores the given code and Some(Location{line, column})", g)
        else:
            r.violation(g.path, "syntax-without-location", "Error::syntax does not store its code with a location", g.loc())
    ioe = Opq("io_error")
    g, outs = built("parse::error::Error::io", {1: ioe})
    if g is not None:
        okv = outs and all(o is not None and isinstance(o.fields[names.index("code")], Adt)
                           and o.fields[names.index("code")].vname == "Io" and o.fields[names.index("code")].fields
                           and o.fields[names.index("code")].fields[0] is ioe for o in outs)
        if okv:
            r.ok("Error::io stores ErrorCode::Io(error)", g)
        else:
            r.violation(g.path, "io-ctor", "Error::io no longer stores ErrorCode::Io(error)", g.loc())
    # no caller passes ErrorCode::Io to Error::syntax
    for fn, bi, t in common.iter_calls(lexpr):
        if "parse::error::Error::syntax" in F.callee_names(t):
            defs = common.defs_of(fn)
            o = common.origin(fn, defs, t["args"][0])
            if o["k"] == "agg" and o["rv"].get("vname") == "Io":
                r.violation(fn.path, "syntax(Io)", "%s builds a located syntax error with ErrorCode::Io" % fn.path, fn.loc(t.get("line")))

    # ---- serde_lexpr::Error
    sf = serde.fn("error::Error::classify")
    sconv = serde.fn("error::<impl std::convert::From<error::Error> for std::io::Error>::from")
    simpl = serde.adts.get("error::ErrorImpl")
    scats = serde.variant_names("error::Category")
    if sf is None or sconv is None or not simpl or not scats:
        r.anchor_missing("serde_lexpr::error::{Error::classify, From<Error> for io::Error, ErrorImpl, Category}")
        return
    lcats = cats
    for v in simpl["variants"]:
        name = v["name"]
        subcases = [(None, None)]
        if name == "Parse":
            subcases = [(i, c) for i, c in enumerate(lcats)]
        for (ci, cname) in subcases:
            impl = Adt("error::ErrorImpl", v["idx"], [Opq("payload")] * len(v["fields"]))

            def opaque(o, impl=impl):
                # Box<ErrorImpl> deref is lowered to (self.0).0.pointer as *const ErrorImpl
                if o.root in ("self", "l") and o.path and o.path[-1] == "pointer":
                    return sim.Ref([impl], 0, ())
                return None

            def hook(S, fn, bb, t, args, path, ci=ci):
                nm = F.callee_names(t)
                if any(n.endswith("Error::classify") and "lexpr" in n for n in nm) and ci is not None:
                    return ("value", Adt("lexpr::parse::error::Category", ci, []))
                # parse::Error -> io::Error is lexpr's conversion (checked above): it hands back the payload
                if ("std::convert::Into::into" in nm or "std::convert::From::from" in nm) and args \
                        and isinstance(args[0], Opq) and args[0].root == "payload":
                    return ("value", args[0])
                return None

            S = sim.Sim([serde], hooks={"opaque": opaque, "call": hook},
                        inline=lambda a, b: b.crate == serde.name and b.file.endswith("src/error.rs"))
            want = {"Message": "Data", "Io": "Io"}.get(name) or cname
            ps = [p for p in S.run(sf) if p.end == "return"]
            got = {scats[p.ret.variant] if isinstance(p.ret, Adt) and p.ret.variant < len(scats) else "?" for p in ps}
            label = name + ("(%s)" % cname if cname else "")
            if got == {want}:
                r.ok("serde_lexpr classify(%s) = %s" % (label, want), sf)
            else:
                r.violation("serde_lexpr::" + sf.path, "classify:%s" % label,
                            "serde_lexpr::Error::classify maps %s to %s; documented is %s" % (label, sorted(got), want), sf.loc())
            kinds = set()
            for p in S.run(sconv):
                if p.end != "return":
                    if p.end == "panic":
                        kinds.add("panic")
                    continue
                news = p.calls("std::io::Error::new")
                if news:
                    a = news[-1][6][0]
                    kinds.add(a.vname if isinstance(a, Adt) and a.vname else "?")
                else:
                    kinds.add("payload" if isinstance(p.ret, Opq) and p.ret.root == "payload" else "other:%r" % (p.ret,))
            wantk = {"Io": "payload", "Eof": "UnexpectedEof", "Syntax": "InvalidData", "Data": "InvalidData"}[want]
            if name == "Parse" and cname == "Io":
                # a parse::Error of category Io inside ErrorImpl::Parse: the conversion hits unreachable!();
                # From<parse::Error> wraps it as Parse, so this combination can exist -> must not panic
                pass
            if kinds == {wantk}:
                r.ok("serde_lexpr io::Error::from(%s) -> %s" % (label, wantk), sconv)
            else:
                r.violation("serde_lexpr::" + sconv.path, "io-kind:%s" % label,
                            "converting serde_lexpr ErrorImpl::%s to io::Error yields %s; documented is %s"
                            % (label, sorted(kinds), wantk), sconv.loc())


def is_reader(nm):
    return lex.is_read_call(nm) or any(x in nm for x in OPAQUE_READERS)


def eof_hook(k):
    def hook(S, fn, bb, t, args, path):
        nm = F.callee_names(t)
        if is_reader(nm):
            n = sum(1 for e in path.events if e[0] == "call" and is_reader(e[1]))
            if n < k:
                v = lex.some(UNK)
                return ("value", v if lex.SLICE_PEEK in nm else lex.ok(v))
            if n == k:
                path.events.append(("eof-injected", fn.path, bb, t.get("line"), path.blocks[-1] if path.blocks else -1))
                v = lex.none()
                return ("value", v if lex.SLICE_PEEK in nm else lex.ok(v))
            return ("stop", "next-read")
        return None
    return hook


def eof_conflate(ctx, lexpr):
    r = ctx.rule("R-EOF-CONFLATE", "after the end-of-input outcome of a read, only Eof* error codes are constructed "
                                   "before the next read")
    names = lexpr.variant_names("parse::error::ErrorCode")
    if not names:
        r.anchor_missing("parse::error::ErrorCode")
        return
    from ..report import load_table
    exceptions = load_table("eof_exceptions.json")
    nfn = 0
    ninj = 0
    res = {}      # (fn path, site block) -> {"codes": set, "ok": bool, "line": n}
    small_code_fns = {f.path for f in lexpr.fns if f.locals and f.locals[0]["ty"].endswith("error::ErrorCode")}
    wrappers = set(lex.WRAPPERS) | lex.thin_wrappers(lexpr)
    inl = lambda a, b: b.path in wrappers or b.path in small_code_fns or (b.crate == lexpr.name and lex.scalar_fn(b))
    for f in lexpr.fns:
        if f.kind == "closure" or not common.in_file(f, "lexpr/src/parse/mod.rs", "lexpr/src/parse/read.rs"):
            continue
        if f.path in wrappers and any(f.local_ty(i).endswith("error::ErrorCode") for i in range(1, f.arg_count + 1)):
            # a wrapper that raises the code its caller passes (`next_or(read, eof_code)`): it is looked through at every
            # call site, where the code is known
            r.note("%s raises the error code it is given: evaluated at its call sites" % f.path)
            continue
        touched = False
        for k in range(0, 5):
            S = sim.Sim([lexpr], hooks={"call": eof_hook(k)}, inline=inl, max_paths=40000)
            try:
                ps = S.run(f)
            except sim.Limit:
                r.violation(f.path, "inexact", "path limit while analysing %s (read #%d); failing closed" % (f.path, k), f.loc())
                break
            any_inj = False
            for p in ps:
                idx = [i for i, e in enumerate(p.events) if e[0] == "eof-injected"]
                if not idx:
                    continue
                any_inj = True
                ninj += 1
                inj = p.events[idx[0]]
                site = inj[4]
                line = f.blocks[site]["term"].get("line") if site >= 0 else inj[3]
                ent = res.setdefault((f.path, site), {"codes": set(), "ok": False, "line": line, "elines": set()})
                raised = False
                for e in p.events[idx[0]:]:
                    if e[0] == "call" and "parse::error::Error::syntax" in e[1]:
                        a = e[2][0]
                        cd = names[a.variant] if isinstance(a, Adt) and a.variant < len(names) else "?"
                        ent["codes"].add(cd)
                        ent["elines"].add(e[5])
                        raised = True
                if not raised:
                    ent["ok"] = True
            if not any_inj:
                break
            touched = True
        if touched:
            nfn += 1
    r.note("lexer functions with reads: %d; end-of-input injections followed: %d; read sites: %d" % (nfn, ninj, len(res)))
    r.floor("functions-with-reads", nfn)
    r.floor("read-sites", len(res))
    for (fp, site), ent in sorted(res.items()):
        fn = lexpr.fn(fp)
        codes = ent["codes"]
        if not codes:
            r.ok("%s: end of input at the read on line %s raises no error before the next read" % (fp, ent["line"]), fn, ent["line"])
            continue
        if "?" in codes:
            r.violation(fp, "eof->undetermined",
                        "%s: the error code raised after end of input at line %s could not be determined; failing closed"
                        % (fp, ent["line"]), fn.loc(ent["line"]))
            continue
        eofs = {c for c in codes if c.startswith("Eof")}
        allowed = {c for c in codes if ("%s | eof->%s" % (fp, c)) in exceptions}
        if allowed and not (codes - allowed - eofs):
            for c in sorted(allowed):
                r.ok("%s: end of input -> %s (reviewed: %s)" % (fp, c, exceptions["%s | eof->%s" % (fp, c)]["reason"]), fn, ent["line"])
            if not eofs:
                continue
        if eofs:
            extra = codes - eofs
            r.ok("%s: end of input at the read on line %s -> %s%s" % (
                fp, ent["line"], sorted(eofs),
                " (also %s on a data-dependent branch that the analysis does not decide)" % sorted(extra) if extra else ""),
                fn, ent["line"])
        else:
            for cd in sorted(codes):
                r.violation(fp, "eof->%s" % cd,
                            "%s: when the input ends at the read on line %s the only error raised (line %s) is %s, a "
                            "syntax code: a truncated but otherwise well-formed input is reported as malformed, never "
                            "as EOF" % (fp, ent["line"], sorted(x for x in ent["elines"] if x), cd), fn.loc(ent["line"]))


def charname_eof(ctx, lexpr):
    """`#\\name` character names: a proper prefix of an accepted name followed by the end of input is an incomplete
    name (EOF category), not a malformed one.  The accepted names are discovered from the code itself: the R6RS
    character reader is evaluated with the reader delivering 2..12 ranged bytes and a delimiter, the name match
    narrows each byte to one value on the accepting paths.  Each proper prefix (two bytes or more: a single byte is
    a character by itself) is then fed concretely, followed by the end of input."""
    from .. import lex, sim
    from ..sim import Adt, Ref, Rng, Tup
    r = ctx.rule("R-CHARNAME-EOF", "every proper prefix of every character name the reader accepts, cut off by the end of "
                                   "input, is reported with an Eof code (the name table and the incomplete-name table agree)")
    fn = lexpr.fn("parse::read::parse_r6rs_char") or lexpr.fn("parse::read::Read::parse_r6rs_char")
    if fn is None:
        r.anchor_missing("parse::read::parse_r6rs_char")
        return
    inl = lex.helper_inline(lexpr, {"parse::is_delimiter", "parse::read::next_or_eof_char", "parse::read::error"})

    def run(seq, assume_name_bytes):
        def extra(S, f, bb, t, args, path, names):
            if assume_name_bytes and any(x.endswith("::is_delimiter") for x in names) and args \
                    and isinstance(S._deref(args[0], path), Rng):
                return ("value", 0)       # the ranged bytes stand for name characters (letters, once matched)
            return None
        S = sim.Sim([lexpr], hooks={"call": lex.seq_hook(seq, extra)}, inline=inl, max_paths=20000, max_depth=6, max_visits=16)
        S.structural_vec = True
        cell = [Adt("sim::Vec", 0, [Tup([])])]
        return S, cell, S.run(fn, args={2: Ref(cell, 0, ())})

    names = set()
    try:
        for L in range(2, 13):
            seq = [Rng(0, 0x7F) for _ in range(L)] + [0x20, None]
            S, cell, paths = run(seq, True)
            for p in paths:
                if not (p.end == "return" and isinstance(p.ret, Adt) and p.ret.adt.endswith("Result") and p.ret.variant == 0):
                    continue
                mine, _ = S._caller_env(cell, p, 0)
                v = mine[0]
                if not (isinstance(v, Adt) and v.adt == "sim::Vec") or len(v.fields[0].fields) != L:
                    continue
                bs = []
                for x in v.fields[0].fields:
                    for memo in p.memos:
                        x = memo.get(id(x), x)
                    bs.append(x if isinstance(x, int) else (x.lo if isinstance(x, Rng) and x.lo == x.hi else None))
                if None not in bs:
                    names.add(bytes(bs))
    except sim.Limit:
        r.violation(fn.path, "inexact", "path limit while discovering the accepted character names", fn.loc())
        return
    if not names:
        # the reader may look names up in a table instead of matching on them: every byte string found in a static
        # of the parse module is a candidate, kept if the reader accepts it as a character name
        cands = set()

        def leaves(v):
            if isinstance(v, sim.Bytes):
                yield bytes(v.b)
            elif isinstance(v, Tup):
                for x in v.fields:
                    yield from leaves(x)
        S0 = sim.Sim([lexpr])
        for sname, sv in S0.statics.items():
            if sname.startswith("parse::") and isinstance(sv, Tup):
                cands |= {b for b in leaves(sv) if 2 <= len(b) <= 16 and all(0x21 <= c < 0x7F for c in b)}
        for cand in sorted(cands):
            try:
                S, cell, paths = run(list(cand) + [0x20, None], False)
            except sim.Limit:
                continue
            outs = set()
            for p in paths:
                if p.end == "return" and isinstance(p.ret, Adt) and p.ret.adt.endswith("Result"):
                    outs.add("ok" if p.ret.variant == 0 and isinstance(S._deref(p.ret.fields[0], p), int) else "err")
                else:
                    outs.add("?")
            if outs == {"ok"}:
                names.add(cand)
        if names:
            r.note("names found through the parse module's static tables (the reader looks them up)")
    r.floor("character-names", len(names))
    r.note("character names accepted by the reader: %s" % ", ".join(sorted(n.decode("latin1") for n in names)))
    n = 0
    for name in sorted(names):
        for k in range(2, len(name)):
            prefix = name[:k]
            if prefix in names:
                continue
            n += 1
            S, cell, paths = run(list(prefix) + [None, None], False)
            codes = set()
            for p in paths:
                if p.end == "return":
                    cs = lex.error_codes(p, lexpr)
                    codes.add(cs[-1] if cs else ("Ok" if lex.ret_shape(p) == "Ok" else "?"))
                elif p.end == "panic":
                    codes.add("panic")
            desc = "`#\\%s` at the end of input (prefix of `%s`)" % (prefix.decode("latin1"), name.decode("latin1"))
            if codes and all(c.startswith("Eof") for c in codes):
                r.ok("%s -> %s" % (desc, sorted(codes)[0]), fn)
            elif "?" in codes or not codes:
                r.violation(fn.path, "inexact:%s" % prefix.decode("latin1"), "%s could not be evaluated (%s)" % (desc, sorted(codes)), fn.loc())
            else:
                r.violation(fn.path, "charname-eof:%s" % prefix.decode("latin1"),
                            "%s is reported as %s: a streaming caller takes the truncated input for malformed"
                            % (desc, sorted(codes)), fn.loc())
    r.floor("prefix-cases", n)
