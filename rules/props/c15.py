"""C15  List construction, traversal, conversion and indexing are consistent - no-panic clause.

  R-PANIC-INV  every potentially panicking construct reachable from Value::get, the Index impls and
               ops::Index::index is discharged or in the reviewed inventory (none is today);
               ops::Index falls back with unwrap_or(&NIL), never unwrap
  R-TAIL-MAP   cons::ListIter::next moves to Cons / Exhausted / Dot exactly for a Cons / Null / other cdr
               (outcome map over all 11 value kinds)
  R-ALIST      association-list lookup over synthetic lists with concrete key texts
  R-TRAVERSE   Value::append / list, Cons::to_vec / into_vec / to_ref_vec, Value::to_vec / to_ref_vec, is_list /
               is_dotted_list, positional indexing and Cons::iter evaluated on structural chains (0..3 elements x six
               kinds of tail): each gives the documented (xs, t) answer
  R-CLONE-ID   the hand-written iterative Cons::clone, evaluated over structural chains (1..3 cells, six kinds
               of tail, nested chains), gives back the structure it was given
  thorough     the same over the exact monomorphic reachability from the roots crate's
               value_get_* / value_index_* operations
Not decided: the consistency relations between the traversals (value-level).
"""
from .. import common, facts as F, panics, reach
from ..report import load_table

KINDS = ("panic", "unwrap", "index", "bounds", "div", "std-panicky", "assert")


def run(ctx):
    db = ctx.facts(["poly"] + (["mono"] if ctx.tier == "thorough" else []))
    lexpr = db.crate("lexpr")
    ctx.explanation = (
        "'Indexing never panics on any value' is decided as a property of the code reachable from the indexing entry "
        "points: the inventory of panic!/unreachable!/unwrap/expect/slice-index/bounds-check/division constructs in that "
        "code must be empty or reviewed. Today it is empty: positional indexing walks the list with a counted loop and "
        "`elements.get(i)`, association lookup uses find_map, and ops::Index substitutes a static Nil with unwrap_or. "
        "The thorough tier recomputes the surface from the monomorphic call graph (usize, &str, String, &Value keys). "
        "The agreement of the ten traversals with each other is a value-level property and is not decided.")
    ctx.trusted = ["rustc nightly MIR construction", "slice::get / Iterator adaptors of std do not panic"]
    r = ctx.rule("R-PANIC-INV", "no unreviewed panicking construct is reachable from the indexing entry points")
    g = reach.build_graph(lexpr)
    roots = [f.path for f in lexpr.fns if common.in_file(f, "lexpr/src/value/index.rs")] + ["value::Value::get"]
    surf = reach.reachable(g, roots)
    r.floor("roots", len(roots))
    r.floor("surface", len(surf))
    table = load_table("panics.json")["lexpr"]
    nf, ni = panics.scan(r, lexpr, lambda f: f.path in surf, table, KINDS,
                         "indexing must not be able to panic: use a checked access")
    r.note("functions scanned: %d (entry points %d), panicking constructs examined: %d" % (nf, len(roots), ni))
    for f in lexpr.fns:
        if f.path in surf and not [i for i in panics.inventory(f) if i["kind"] in KINDS]:
            r.ok("%s: no panicking construct" % f.path, f)
    # the fallback of ops::Index
    idx = [f for f in lexpr.fns if f.impl_trait == "std::ops::Index" and (f.self_ty or "").endswith("Value")]
    if not idx:
        r.anchor_missing("impl ops::Index<I> for Value")
    for f in idx:
        names = set()
        for bi, t in f.calls():
            names |= F.callee_names(t)
        if "std::option::Option::<T>::unwrap_or" in names and not any(n.endswith("::unwrap") or n.endswith("::expect") for n in names):
            r.ok("%s falls back with unwrap_or(&NIL)" % f.path, f)
        else:
            r.violation(f.path, "index-fallback", "%s no longer falls back with unwrap_or: a missing key/index would panic" % f.path, f.loc())
    alist_lookup(ctx, lexpr)
    from .. import tailmap
    rt = ctx.rule("R-TAIL-MAP", "the element iterator classifies the cdr of a cell: Cons continues, the empty list ends, "
                                "every other kind (incl. #nil) is a dotted tail")
    n = tailmap.check(rt, lexpr, which=("cons",))
    rt.floor("cdr-kinds", n)
    from .. import listeval
    rtv = ctx.rule("R-TRAVERSE", "construction (append / list), the vector conversions (owned, cloned, by reference), the "
                                 "proper / dotted predicates, positional indexing and cell iteration give the documented "
                                 "result on structural chains of 0..3 elements with every kind of tail")
    listeval.check(rtv, lexpr, ctx.tier == "thorough")
    from .. import cloneid
    rc = ctx.rule("R-CLONE-ID", "the hand-written, iterative Cons::clone gives back the cells, elements and tail it was given")
    cloneid.check_cons(rc, lexpr, ctx.tier == "thorough")
    req = ctx.rule("R-LIST-EQ", "the hand-written, iterative Cons::eq holds exactly for chains with the same elements in order and the same tail")
    cloneid.check_cons_eq(req, lexpr)
    if ctx.tier == "thorough":
        m = db.mono()
        r2 = ctx.rule("R-PANIC-INV/mono", "the same inventory over the exact monomorphic reachability of the index operations")
        start = [i for i in m.roots if m.nodes[i]["def"].split("::")[-1].startswith(("value_get_", "value_index_"))]
        r2.floor("mono-roots", len(start))
        seen = set()
        st = list(start)
        while st:
            x = st.pop()
            if x in seen:
                continue
            seen.add(x)
            st.extend(e["to"] for e in m.out.get(x, []))
        dps = {m.nodes[i]["dp"] for i in seen if m.nodes[i]["crate"] == "lexpr"}
        fns = [lexpr.by_dp[d] for d in dps if d in lexpr.by_dp]
        paths = {f.path for f in fns}
        r2.floor("mono-surface", len(paths))
        panics.scan(r2, lexpr, lambda f: f.path in paths, table, KINDS, "(monomorphic surface)")
        r2.note("monomorphic instances reached: %d, lexpr functions among them: %d" % (len(seen), len(paths)))


def alist_lookup(ctx, lexpr):
    """Association-list lookup by name and by value over small synthetic lists with concrete key texts."""
    from .. import alist, sim
    r = ctx.rule("R-ALIST", "association-list lookup returns the cdr of the first entry whose key matches (by name: any "
                            "name kind with that text; by value: the same kind and text), skips entries that are not "
                            "pairs, and answers None otherwise")
    by_name = lexpr.fn("<str as value::index::Index>::index_into")
    by_value = lexpr.fn("<value::Value as value::index::Index>::index_into")
    if by_name is None or by_value is None:
        r.anchor_missing("Index for str / Index for Value")
        return
    NAMEK = ("Symbol", "Keyword", "String")

    def nv(kind, text):
        return ("name", kind, text)

    def build(spec):
        """spec: python description -> abstract Value.  ("name", kind, text) | ("atom", kind) | ("pair", k, v) | ("list", items, tail)"""
        tag = spec[0]
        if tag == "name":
            return alist.name_value(lexpr, spec[1], spec[2])
        if tag == "atom":
            return alist.mk(lexpr, spec[1])
        if tag == "bool":
            return alist.mk(lexpr, "Bool", spec[1])
        if tag == "pair":
            return alist.cons(lexpr, build(spec[1]), build(spec[2]))
        if tag == "list":
            return alist.lst(lexpr, [build(x) for x in spec[1]], build(spec[2]) if spec[2] else None)
        raise ValueError(spec)

    def val(i):
        return nv("String", b"value%d" % i)

    K = b"k"
    lists = {
        "one entry": ("list", [("pair", nv("Symbol", K), val(1))], None),
        "atoms before the entry": ("list", [("atom", "Number"), nv("Symbol", K), ("atom", "Null"),
                                            ("pair", nv("Symbol", K), val(1))], None),
        "duplicate keys": ("list", [("pair", nv("Symbol", b"other"), val(0)), ("pair", nv("Symbol", K), val(1)),
                                    ("pair", nv("Symbol", K), val(2))], None),
        "same text under each name kind": ("list", [("pair", nv("Keyword", K), val(1)), ("pair", nv("String", K), val(2)),
                                                    ("pair", nv("Symbol", K), val(3))], None),
        "no match, dotted tail": ("list", [("pair", nv("Symbol", b"other"), val(0))], ("atom", "Bool")),
        "not a list": ("atom", "Char"),
    }

    def expected(spec, mode, key):
        if spec[0] != "list":
            return "none"
        for e in spec[1]:
            if e[0] != "pair":
                continue
            k = e[1]
            if mode == "name":
                if k[0] == "name" and k[2] == key:
                    return ("some", e[2][2])
            elif k == key or (k[0] == "name" and isinstance(key, tuple) and len(key) == 2 and (k[1], k[2]) == key):
                return ("some", e[2][2])
        return "none"

    def tag(v):
        if isinstance(v, sim.Adt) and v.fields:
            f0 = v.fields[0]
            if isinstance(f0, sim.Adt) and f0.adt == "std::boxed::Box":
                try:
                    inner = f0.fields[0].fields[0]
                    while isinstance(inner, sim.Ref):
                        inner = inner.env[inner.local]
                    return inner.b
                except Exception:
                    return repr(v)[:40]
        return repr(v)[:40]

    n = 0
    undecided = []
    lookups = [("name", K, by_name, alist.Str(K))] + [("value", (kind, K), by_value, None) for kind in NAMEK]
    if ctx.tier == "thorough":
        # keys that are not names (booleans, the empty list, #nil), a longer list, every atom kind in front
        atoms = [("atom", k) for k in ("Nil", "Null", "Number", "Char", "Bytes", "Vector")] + [("bool", 0), nv("String", b"x")]
        lists["every atom kind before the entry"] = ("list", atoms + [("pair", nv("Symbol", K), val(1))], None)
        lists["non-name keys"] = ("list", [("pair", ("bool", 1), val(1)), ("pair", ("atom", "Null"), val(2)),
                                           ("pair", ("atom", "Nil"), val(3)), ("pair", ("bool", 0), val(4)),
                                           ("pair", nv("Symbol", K), val(5))], None)
        lists["match at the end of a longer list"] = ("list", [("pair", nv("Symbol", b"k%d" % i), val(i)) for i in range(5)]
                                                      + [("pair", nv("Symbol", K), val(9))], None)
        lookups += [("value", ("bool", 0), by_value, None), ("value", ("bool", 1), by_value, None),
                    ("value", ("atom", "Null"), by_value, None), ("value", ("atom", "Nil"), by_value, None)]
    for lname, spec in lists.items():
        for mode, key, fn, karg in lookups:
            S = alist.make_sim(lexpr)
            target = build(spec)
            keyv = karg if mode == "name" else (alist.name_value(lexpr, key[0], key[1]) if key[0] in NAMEK else build(key))
            try:
                ps = S.run(fn, args={1: alist._cell(keyv), 2: alist._cell(target)})
            except sim.Limit:
                r.violation(fn.path, "inexact:%s" % lname, "path limit")
                continue
            got = alist.outcome(S, ps, tag)
            want = expected(spec, mode, key)
            n += 1
            desc = "%s, lookup by %s %s" % (lname, mode, key.decode() if mode == "name" else
                                            ("%s(%s)" % (key[0], key[1].decode()) if key[0] in NAMEK else "%s %s" % key))
            if got == {want}:
                r.ok("%s -> %s" % (desc, want if want == "none" else "entry value %s" % want[1].decode()), fn)
            elif any(isinstance(g, str) and g.startswith("?") for g in got) or len(got) > 1 and want in got:
                r.note("undecided: %s gives %s" % (desc, sorted(got, key=repr)))
                undecided.append(desc)
            else:
                r.violation(fn.path, "alist:%s:%s" % (lname.replace(" ", "-"), mode if mode == "name" else (key[0] if isinstance(key[1], bytes) else "%s-%s" % key)),
                            "%s: the lookup answers %s, the documented answer is %s" % (
                                desc, sorted(got, key=repr), want if want == "none" else "the cdr of the first matching entry (%s)" % want[1].decode()),
                            fn.loc())
    r.floor("cases", n)
    r.floor("decided", n - len(undecided))

