"""C16  Stack use does not grow with the number of list elements.

R-SPINE over the monomorphic whole-program call graph of every list-walking public
operation (roots crate): recursion is allowed along car / vector elements only.
 (i)  no recursive SCC may pass through code that treats the (car, cdr) pair
      uniformly (instances over `(Value, Value)`, `Box<(Value, Value)>`,
      `[SpanInfo; 2]`, `Box<[SpanInfo; 2]>`): that recurses once per list element.
      Exception: the drop-glue SCC of a spine type with a conforming manual Drop.
 (ii) no call inside a recursive SCC may pass a cdr-derived argument unless it is
      tail-guarded (edge-dominated by the non-Cons arm of a match on that cdr) or
      listed in tables/spine_exceptions.json.
"""
from .. import cfg, common, facts as F, spine
from ..report import load_table

LOCAL = ("lexpr", "serde_lexpr", "lexpr_macros")
SPINE_TYPES = {
    "(lexpr::Value, lexpr::Value)": ("lexpr::Cons", "<lexpr::Cons as std::ops::Drop>::drop"),
    "[lexpr::datum::SpanInfo; 2]": ("lexpr::datum::SpanInfo", "<lexpr::datum::SpanInfo as std::ops::Drop>::drop"),
}


def short_inst(s):
    return s.split(" - shim")[0]


def run(ctx):
    db = ctx.facts(["poly", "mono"])
    m = db.mono()
    ctx.explanation = (
        "The driver walks the monomorphic call graph (calls and drop glue, generic std code instantiated with lexpr "
        "types included, closures resolved through the adaptors that call them) from a roots crate that invokes every "
        "list-walking public operation with concrete types. Tarjan SCCs of that graph are the only places where stack "
        "depth can grow. Rule (i) rejects any SCC containing an instance over the (car, cdr) payload aggregate, because "
        "such code recurses into the cdr exactly as into the car, i.e. once per list element (this is what derived "
        "Clone/PartialEq/drop glue do); rule (ii) rejects recursive calls whose argument is derived from a cdr accessor "
        "unless the call is edge-dominated by the non-Cons arm of a match on that cdr. Both hold for every list length "
        "because they are properties of the call graph, where a test can only try one length and dies by abort.")
    ctx.trusted = ["rustc nightly instance resolution", "std's Vec/Box/slice code is iterative over elements",
                   "virtual (dyn) calls are leaves of the walk and are counted in the evidence"]
    ctx.assumptions = ["nesting depth (car / vector direction) is bounded by the parser's depth limit"]

    r0 = ctx.rule("R-SPINE-COVERAGE", "the monomorphic walk covers the list-walking operations the property names")
    r0.floor("roots", len(m.roots))
    r0.floor("nodes", len(m.nodes))
    walked = sum(1 for n in m.nodes if n.get("walked"))
    leaves = [n for n in m.nodes if n["kind"] in ("virtual",)]
    indirect = [e for e in m.edges if e["k"] in ("indirect", "unresolved")]
    r0.note("roots=%d nodes=%d walked=%d edges=%d virtual-call leaves=%d indirect/unresolved call sites=%d"
            % (len(m.roots), len(m.nodes), walked, len(m.edges), len(leaves), len(indirect)))
    need = ["value_clone", "value_eq", "value_drop", "datum_clone", "datum_eq", "datum_drop", "print_to_string",
            "parse_from_str", "datum_from_str", "value_to_vec", "value_get_usize", "value_is_list",
            "cons_into_vec", "serde_from_value_vec", "serde_to_value_vec", "serde_from_value_any", "print_display"]
    have = {m.nodes[i]["def"].split("::")[-1] for i in m.roots}
    for n in need:
        if n in have:
            r0.ok("root operation %s is walked" % n)
        else:
            r0.anchor_missing("root operation %s" % n)

    succ = lambda n: [e["to"] for e in m.out.get(n, [])]
    comps = [c for c in cfg.sccs(range(len(m.nodes)), succ) if len(c) > 1 or c[0] in succ(c[0])]
    r0.note("recursive SCCs: %d" % len(comps))

    r1 = ctx.rule("R-SPINE-PAYLOAD", "no recursive SCC passes through code over the (car, cdr) payload aggregate, "
                                     "except the drop glue of a spine type with a conforming manual Drop")
    r2 = ctx.rule("R-SPINE-CDR-ARG", "no recursive call passes a cdr-derived argument unless tail-guarded")
    exc = {k: dict(v) for k, v in load_table("spine_exceptions.json").items()}
    carlike = {}

    lex_adts = db.crate("lexpr").adts
    cons_idx = {}
    for short, full in (("Value", "value::Value"), ("SpanInfo", "datum::SpanInfo")):
        for v in lex_adts.get(full, {}).get("variants", []):
            if v["name"] == "Cons":
                cons_idx[short] = v.get("discr", v["idx"])
    if len(cons_idx) != 2:
        r2.anchor_missing("variant `Cons` of value::Value / datum::SpanInfo")
    for comp in comps:
        cs = set(comp)
        nodes = [m.nodes[i] for i in comp]
        local_defs = sorted({nice(db, n) for n in nodes if n["crate"] in LOCAL})
        # std / compiler-generated code instantiated over the pair (Clone / PartialEq / drop glue of the aggregate): it
        # cannot tell car from cdr.  The crates' own functions that merely carry the type as a generic argument
        # (`parse_list_with::<[SpanInfo; 2]>`) are judged by rule (ii) on what they pass on.
        payload = [n for n in nodes if any(pm in n["inst"] for pm in PAYLOAD_MARKERS_IN(n))
                   and (n["crate"] not in LOCAL or n["kind"] == "drop-glue" or lookup(db, n) is None
                        or getattr(lookup(db, n), "derived", False))
                   and not _fn_pointer_shim(n)]
        label = ", ".join(local_defs[:4]) if local_defs else short_inst(nodes[0]["inst"])
        if payload:
            all_drop = all(n["kind"] == "drop-glue" or n["def"].endswith("as std::ops::Drop>::drop") for n in nodes)
            if all_drop:
                # which spine types are involved?
                ok_all = True
                for marker, (ty, drop_def) in SPINE_TYPES.items():
                    if not any(marker in n["inst"] for n in nodes):
                        continue
                    dn = [n for n in nodes if n["def"] == drop_def]
                    why = None
                    if not dn:
                        why = "%s has no manual Drop: its drop glue recurses through %s once per list element" % (ty, marker)
                    else:
                        fn = lookup(db, dn[0])
                        if fn is None:
                            why = "manual Drop for %s not found in the facts" % ty
                        else:
                            okc, reason = spine.manual_drop_conforms(fn, db.crate(dn[0]["crate"]))
                            if not okc:
                                why = "manual Drop for %s is not iterative (%s)" % (ty, reason)
                    if why:
                        ok_all = False
                        r1.violation(ty, "drop-glue-recursion", "dropping a long list overflows the stack: " + why)
                    else:
                        r1.ok("drop glue SCC of %s is sanctioned: manual Drop is iterative (loop + take/replace)" % ty)
                continue
            shims = sorted({short_inst(n["inst"]) for n in payload})
            r1.violation(label, "payload-recursion",
                         "recursive cycle {%s} passes through %s: the cdr is processed by the same recursion as the car, "
                         "so stack depth grows with the number of list elements" % (label, "; ".join(shims[:3])))
        else:
            r1.ok("SCC {%s} (%d instances) contains no (car, cdr) payload aggregate" % (label, len(comp)))

        # (ii) cdr-derived arguments on intra-SCC calls from local code
        for i in comp:
            n = m.nodes[i]
            if n["crate"] not in LOCAL:
                continue
            fn = lookup(db, n)
            if fn is None:
                continue
            tainted = None
            for e in m.out.get(i, []):
                if e["to"] not in cs or e["k"] not in ("call", "fnarg"):
                    continue
                t = fn.blocks[e["bb"]]["term"]
                if t["k"] != "call":
                    continue
                if tainted is None:
                    tainted = spine.cdr_taint(fn, carlike.setdefault(n["crate"], spine.carlike_fns(db.crate(n["crate"]))
                                              if db.crate(n["crate"]) else set()))
                bad = [common.place_local(a) for a in t["args"]
                       if common.place_local(a) is not None and common.place_local(a) in tainted]
                callee = nice(db, m.nodes[e["to"]])
                caller = nice(db, n)
                if not bad:
                    r2.ok("%s -> %s: no cdr-derived argument" % (caller, callee), fn, t.get("line"))
                    continue
                if all(spine.tail_guarded(fn, e["bb"], l, tainted, cons_idx) for l in bad):
                    r2.ok("%s -> %s: cdr argument is tail-guarded (non-Cons arm of a match on that cdr)"
                          % (caller, callee), fn, t.get("line"))
                    continue
                # the callee takes the cdr but goes on only into its car (`src[1].clone_detached()` clones the next
                # cell without its successors): the depth of that recursion is nesting depth
                cn = m.nodes[e["to"]]
                cfn = lookup(db, cn) if cn["crate"] in LOCAL else None
                if cfn is not None and cfn is not fn:
                    pos = [k + 1 for k, a in enumerate(t["args"]) if common.place_local(a) in bad]
                    flow = spine.param_flow(cfn, pos, carlike.get(cn["crate"], set()))
                    passes_on = False
                    for e2 in m.out.get(e["to"], []):
                        if e2["to"] not in cs or e2["k"] not in ("call", "fnarg"):
                            continue
                        t2 = cfn.blocks[e2["bb"]]["term"]
                        if t2["k"] == "call" and any(common.place_local(a) in flow for a in t2["args"]
                                                     if common.place_local(a) is not None):
                            passes_on = True
                    if not passes_on:
                        r2.ok("%s -> %s: the callee passes only the car of that argument on into the cycle"
                              % (caller, callee), fn, t.get("line"))
                        continue
                # keyed by the calling function (not by the callee's name, which changes when the call is routed
                # through a helper)
                key = "%s | cdr-arg" % caller
                if key in exc and exc[key]["count"] > 0:
                    exc[key]["count"] -= 1
                    r2.ok("%s (table: %s)" % (key, exc[key]["reason"]), fn, t.get("line"))
                    continue
                r2.violation(caller, "cdr-arg",
                             "%s calls %s (same recursive cycle) with an argument derived from a cdr accessor and "
                             "no guard excluding a Cons: recursion depth follows the list's length"
                             % (caller, callee), fn.loc(t.get("line")))

    # quick structural cross-check on the polymorphic facts: derived impls on the two spine types
    r3 = ctx.rule("R-SPINE-DERIVES", "the types that directly own a (car, cdr) pair have no derived Clone/PartialEq "
                                     "(cross-check of rule (i) on the polymorphic facts)")
    lexpr = db.crate("lexpr")
    for f in lexpr.fns:
        if f.derived and f.self_ty in ("cons::Cons", "datum::SpanInfo") and \
                f.impl_trait in ("std::clone::Clone", "std::cmp::PartialEq"):
            if f.path.endswith("::ne"):
                continue
            r3.violation(f.self_ty, "derived:%s" % f.impl_trait,
                         "#[derive] of %s on %s recurses into the cdr like into the car (once per list element)"
                         % (f.impl_trait.rsplit("::", 1)[1], f.self_ty), f.loc())
    for ty in ("cons::Cons", "datum::SpanInfo"):
        for tr in ("std::clone::Clone", "std::cmp::PartialEq"):
            fs = [f for f in lexpr.fns if f.self_ty == ty and f.impl_trait == tr and not f.derived]
            if fs:
                r3.ok("%s has a hand-written %s" % (ty, tr), fs[0])
    drop_leaves_short_chain(ctx, lexpr)
    # "stack depth may grow only with nesting depth, which the parser bounds": every cycle of the parser's call graph is
    # charged to the depth limit (shared with C03)
    from .. import depth
    depth.check_depth(ctx, lexpr,
                      ctx.rule("R-DEPTH-CYCLE", "every cycle of the parser's call graph is charged to the depth limit"),
                      ctx.rule("R-DEPTH-BALANCE", "the depth counter is restored on every exit, stays in [-1,0], starts >= 101"))


def drop_leaves_short_chain(ctx, lexpr):
    """The hand-written Drop for Cons exists so that the drop glue, which recurses into the cdr, never sees a long
    chain.  The structural rule above checks that the detaching loop is skipped only on tests of the chain's shape;
    which shapes are skipped is decided here by evaluating the impl's own MIR on chains of 2..6 cells, proper and
    dotted: when it returns, what still hangs off the cell it was given must be short (at most two further cells,
    as on the reviewed tree) - cases with small n, not all lists."""
    from .. import alist, cloneid, sim
    from ..sim import Ref
    r = ctx.rule("R-DROP-DETACH", "after the manual Drop of a cons cell has run, at most two further cells still hang off it, "
                                  "for proper and dotted chains alike (the recursive drop glue never sees a long chain)")
    fn = lexpr.fn("<cons::Cons as std::ops::Drop>::drop")
    if fn is None:
        r.note("Cons has no manual Drop on this tree (the drop-glue rule above decides that case)")
        r.ok("no manual Drop for Cons to evaluate")
        return
    B = lambda x: alist.mk(lexpr, "Bool", x)
    tails = {"the empty list": None, "a boolean": B(1), "#nil": alist.mk(lexpr, "Nil"), "a string": alist.name_value(lexpr, "String", b"t")}
    n = und = 0

    def as_left(p, x):
        for memo in p.memos:
            x = memo.get(id(x), x)
        return x

    def spine(d):
        k = 0
        while isinstance(d, tuple) and d and d[0] == "cons":
            k += 1
            d = d[2]
        return k, d

    for cells in (2, 3, 4, 6):
        for tn, tail in tails.items():
            v = alist.lst(lexpr, [B(i % 2) for i in range(cells)], tail)
            cell = v.fields[0]
            S = alist.make_sim(lexpr)
            S.structural_box = True
            S.inline = cloneid._inline_for(lexpr, ("value/index.rs", "value/mod.rs", "value/from.rs", "cons.rs", "number.rs"))
            n += 1
            what = "%d cells ending in %s" % (cells, tn)
            try:
                paths = [p for p in S.run(fn, args={1: Ref([cell], 0, ())}) if p.end == "return"]
            except sim.Limit as e:
                r.note("undecided: %s (%s)" % (what, e))
                und += 1
                continue
            left = set()
            for p in paths:
                k, end = spine(alist.describe(S, p, as_left(p, cell)))
                left.add(k - 1 if k else "?")
            if not paths or "?" in left:
                r.note("undecided: %s leaves %s" % (what, sorted(map(str, left))))
                und += 1
            elif max(left) <= 2:
                r.ok("drop of a chain of %s leaves %s further cell(s) attached" % (what, sorted(left)), fn)
            else:
                r.violation(fn.path, "drop-leaves:%d:%s" % (cells, tn.replace(" ", "-")),
                            "after Drop for Cons has run on a chain of %s, %d further cells still hang off the cell: the "
                            "recursive drop glue then recurses once per remaining cell, so dropping a long list of this "
                            "shape overflows the stack" % (what, max(left)), fn.loc())
    r.floor("drop-cases", n)
    r.floor("drop-decided", n - und)


def _fn_pointer_shim(n):
    """`<fn(&mut Parser, u8) -> Result<Option<(Cons, [SpanInfo; 2])>> as FnOnce<..>>::call_once`: calling a function
    through a pointer.  The pair only occurs in the *signature* of the function called; the shim itself does nothing
    with it, and the function it calls is a node of its own."""
    import re
    return bool(re.match(r"^<(for<[^>]*> )?(unsafe )?(extern \"[^\"]*\" )?fn\(", n["inst"]))


def PAYLOAD_MARKERS_IN(n):
    return spine.PAYLOAD_MARKERS


def nice(db, node):
    """Stable, readable name of a graph node: the crate-local def path from the poly facts
    when the function is local, else the instance's def path (derive hygiene names normalised)."""
    fn = lookup(db, node)
    if fn is not None:
        return "%s::%s" % (node["crate"], fn.path)
    return node["def"].replace("_::_serde", "serde")


def lookup(db, node):
    c = db.crate(node["crate"])
    if c is None:
        return None
    return c.by_dp.get(node.get("dp"))
