"""Serde shapes: constructor terms of the serializer (A4) and accept maps of the deserializer (A5)."""
from . import common, facts as F, sim
from .sim import Adt, Opq, Ref, Tup, UNK

SER = "<value::ser::Serializer as serde::Serializer>::"
DE = "<&'a mut value::de::Deserializer<'de> as serde::Deserializer<'de>>::"


class T:
    """Symbolic constructor term."""

    def __init__(self, tag, *args):
        self.tag = tag
        self.args = args

    def __repr__(self):
        return fmt(self)

    def __eq__(self, o):
        return isinstance(o, T) and fmt(self) == fmt(o)

    def __hash__(self):
        return hash(fmt(self))


def fmt(v, fn=None):
    if isinstance(v, T):
        if not v.args:
            return v.tag
        return "%s(%s)" % (v.tag, ", ".join(fmt(a, fn) for a in v.args))
    if isinstance(v, Adt):
        nm = v.vname or str(v.variant)
        short = v.adt.rsplit("::", 1)[-1]
        if short in ("Value",):
            return nm if not v.fields else "%s(%s)" % (nm, ", ".join(fmt(a, fn) for a in v.fields))
        if short == "Option":
            return "None" if v.variant == 0 else "Some(%s)" % fmt(v.fields[0], fn)
        if short == "Result":
            return ("Ok(%s)" if v.variant == 0 else "Err(%s)") % fmt(v.fields[0], fn)
        return "%s::%s(%s)" % (short, nm, ", ".join(fmt(a, fn) for a in v.fields))
    if isinstance(v, Opq):
        return "$" + ".".join([str(v.root)] + [str(x) for x in v.path])
    if isinstance(v, Ref):
        return "&?"
    if isinstance(v, Tup):
        return "(%s)" % ", ".join(fmt(a, fn) for a in v.fields)
    if isinstance(v, int):
        return str(v)
    if isinstance(v, sim.Bytes):
        return repr(bytes(v.b))
    return "?"


def _canon_params(fn, s):
    """Replace parameter names by positions and collector fields by their type so renames do not matter."""
    for i in range(fn.arg_count, 0, -1):
        nm = fn.local_name(i)
        if nm and nm != "self":
            s = s.replace("$" + nm + "@", "$%d@" % i)
            import re
            s = re.sub(r"\$%s(?![A-Za-z0-9_])" % re.escape(nm), "$%d" % i, s)
    return s


def ser_hook(crate):
    def hook(S, fn, bb, t, args, path):
        c = t["callee"]
        p = c.get("path", "")
        full = c.get("full", "")
        nm = F.callee_names(t)
        d = [S._deref(a, path) for a in args]
        if p == "lexpr::Value::cons":
            return ("value", T("cons", d[0], d[1]))
        if p == "lexpr::Value::symbol":
            return ("value", T("symbol", d[0]))
        if p == "lexpr::Value::list":
            return ("value", T("list", d[0]))
        if p == "lexpr::Value::vector":
            return ("value", T("vector", d[0]))
        if p == "lexpr::Value::append":
            return ("value", T("append", d[0], d[1]))
        if p in ("lexpr::Value::string", "lexpr::Value::keyword", "lexpr::Value::bytes"):
            return ("value", T(p.rsplit("::", 1)[1], d[0]))
        if "std::convert::From::from" in nm or "std::convert::Into::into" in nm:
            if full.startswith("<lexpr::Value as std::convert::From<"):
                src = full[len("<lexpr::Value as std::convert::From<"):].split(">")[0]
                return ("value", T("from:" + src, d[0]))
            sub = c.get("substs", [])
            if len(sub) >= 2 and sub[0] in sim.INT_BITS or (len(sub) >= 2 and sub[0] in ("f64", "f32")):
                # lossless std widening between primitive numbers keeps the mathematical value
                return ("value", d[0])
            return ("value", d[0])
        if "serde::Serialize::serialize" in nm or p == "value::ser::to_value":
            return ("value", Adt("std::result::Result", 0, [T("ser", d[0])]))
        if p.startswith("std::vec::Vec::<T, A>::push") or p == "std::vec::Vec::<T, A>::push":
            path.events.append(("push", args[0], d[1], fn.path, bb))
            return ("skip", Tup([]))
        if p.startswith("std::vec::Vec::<T>::with_capacity") or p.startswith("std::vec::Vec::<T>::new") \
                or p.endswith("map_or_else"):
            return ("value", T("empty-vec"))
        return None
    return hook


def serializer_terms(crate, lexpr):
    """method name -> canonical term string of what it returns / pushes."""
    out = {}
    # the serde side of the serializer: impls of serde's own traits (a derived Debug or a private helper trait of the
    # collectors is not a serializer method)
    fns = [f for f in crate.fns if f.file.endswith("value/ser.rs") and f.kind == "assoc" and (f.impl_trait or "").startswith("serde::")
           and not f.derived]
    inl = lambda a, b: b.crate == crate.name and b.file.endswith("value/ser.rs")
    for f in fns:
        S = sim.Sim([crate], hooks={"call": ser_hook(crate)}, inline=inl, max_depth=4, max_paths=2000)
        try:
            cargs, cmap = _collector_self(crate, f, inl)
            paths = S.run(f, args=cargs)
        except sim.Limit:
            out[f.path] = "inexact"
            continue
        terms = set()
        for p in paths:
            if p.end == "panic":
                continue
            if p.end != "return":
                continue
            r = p.ret
            if isinstance(r, Adt) and r.adt.endswith("Result") and r.variant == 1:
                continue   # error propagation of a child serialization
            pushes = [e for e in p.events if e[0] == "push" and e[3] == f.path or e[0] == "push"]
            desc = fmt(r)
            if pushes:
                desc += " after " + "; ".join("push(%s, %s)" % (_field(crate, f, e[1]), fmt(e[2])) for e in pushes)
            stores = [e for e in p.events if e[0] == "store" and isinstance(e[1], Opq) and e[1].root == "self"]
            if stores:
                desc += " storing " + "; ".join("%s := %s" % (_field(crate, f, e[1]), fmt(e[2])) for e in stores)
            desc = _canon_fields(crate, f, desc)
            for a, b in cmap.items():
                desc = desc.replace(a, b)
            terms.add(_canon_params(f, desc))
        out[f.path] = " | ".join(sorted(terms)) if terms else "(no normal return)"
    return out


COMPOUND_CTOR = {"serde::ser::SerializeSeq": "serialize_seq", "serde::ser::SerializeTuple": "serialize_tuple",
                 "serde::ser::SerializeTupleStruct": "serialize_tuple_struct",
                 "serde::ser::SerializeTupleVariant": "serialize_tuple_variant", "serde::ser::SerializeMap": "serialize_map",
                 "serde::ser::SerializeStruct": "serialize_struct", "serde::ser::SerializeStructVariant": "serialize_struct_variant"}


def _collector_self(crate, f, inl):
    """One collector type serving several compound kinds (`Collector { shape, items, .. }` implementing SerializeSeq ..
    SerializeStructVariant) is told apart by a field of a private enum type - or an `Option` - that the `serialize_*`
    constructor sets, possibly inside a struct-typed field (`CollectMap { inner: Collect { shape, .. }, .. }`).
    A method of such a type is evaluated on a `self` whose enum-typed fields hold the variant that serde's matching
    constructor (`serialize_map` for `SerializeMap`, ..) puts there; everything else about `self` stays symbolic."""
    ctor_name = COMPOUND_CTOR.get(f.impl_trait or "")
    a = crate.adts.get(f.self_ty or "")
    if ctor_name is None or not a or a.get("kind") != "struct" or f.arg_count < 1 or not f.path.endswith("::end"):
        return {}, {}

    def enum_like(ty):
        return ty.startswith("std::option::Option<") or (ty in crate.adts and crate.adts[ty].get("kind") == "enum")

    def struct_like(ty):
        return ty in crate.adts and crate.adts[ty].get("kind") == "struct"

    def has_enum(ty, depth=0):
        if enum_like(ty):
            return True
        if struct_like(ty) and depth < 3:
            return any(has_enum(fl["ty"], depth + 1) for fl in crate.adts[ty]["variants"][0]["fields"])
        return False

    if not has_enum(f.self_ty):
        return {}, {}
    ctor = crate.fn(SER + ctor_name)
    if ctor is None:
        return {}, {}
    S = sim.Sim([crate], hooks={"call": ser_hook(crate)}, inline=inl, max_depth=4, max_paths=500)
    try:
        made = [p.ret for p in S.run(ctor) if p.end == "return" and isinstance(p.ret, Adt) and p.ret.variant == 0]
    except sim.Limit:
        return {}, {}
    objs = []
    for r in made:
        obj = r.fields[0] if r.fields else None
        if not (isinstance(obj, Adt) and obj.adt == f.self_ty):
            return {}, {}
        objs.append(obj)
    if not objs:
        return {}, {}
    cmap = {}
    counter = [0]

    class Mismatch(Exception):
        pass

    def payload_tys(ty, variant):
        if ty.startswith("std::option::Option<"):
            return [ty[len("std::option::Option<"):-1]] if variant == 1 else []
        var = [x for x in crate.adts[ty]["variants"] if x["idx"] == variant]
        return [fl["ty"] for fl in var[0]["fields"]] if var else []

    def build(ty, vals, path):
        """vals: what the constructor paths put at this place."""
        if enum_like(ty):
            if not all(isinstance(v, Adt) for v in vals) or len({v.variant for v in vals}) != 1:
                raise Mismatch()
            v = vals[0]
            pay = []
            ptys = payload_tys(ty, v.variant)
            for j, _x in enumerate(v.fields):
                counter[0] += 1
                pay.append(Opq("self", ("payload%d" % counter[0],)))
                cmap["$self.payload%d" % counter[0]] = "$self<%s>" % (ptys[j] if j < len(ptys) else "?").replace("lexpr::", "")
            return Adt(v.adt, v.variant, pay, v.vname)
        if struct_like(ty) and has_enum(ty):
            fields = crate.adts[ty]["variants"][0]["fields"]
            if not all(isinstance(v, Adt) and v.adt == ty and len(v.fields) == len(fields) for v in vals):
                raise Mismatch()
            return Adt(ty, 0, [build(fl["ty"], [v.fields[i] for v in vals], path + (fl["name"],)) for i, fl in enumerate(fields)])
        return Opq("self", path)

    try:
        me = build(f.self_ty, objs, ())
    except Mismatch:
        return {}, {}
    by_ref = f.local_ty(1).startswith("&")
    return ({1: Ref([me], 0, ()) if by_ref else me}, cmap)


def _self_adt(crate, fn):
    st = fn.self_ty or ""
    return crate.adts.get(st)


def _field(crate, fn, v):
    if isinstance(v, Opq):
        return fmt(v)
    if isinstance(v, Ref):
        return "&?"
    return fmt(v)


def _canon_fields(crate, fn, s):
    """`$self.items` -> `$self<Vec<Value>>`: a field is named by its type, so that renaming it (or moving it into a
    struct-typed field, `$self.inner.items`) does not change the term."""
    a = _self_adt(crate, fn)
    if not a:
        return s
    import re

    def repl(m):
        ty = fn.self_ty
        rest = m.group(1).split(".")[1:]
        done = 0
        for name in rest:
            ad = crate.adts.get(ty)
            if not ad or ad.get("kind") != "struct":
                break
            fl = [x for x in ad["variants"][0]["fields"] if x["name"] == name]
            if not fl:
                break
            ty = fl[0]["ty"]
            done += 1
        if done == 0:
            return m.group(0)
        return "$self<" + ty.replace("lexpr::", "") + ">" + "".join("." + x for x in rest[done:])

    return re.sub(r"\$self((?:\.[A-Za-z_][A-Za-z_0-9]*)+)", repl, s)


# ---------------------------------------------------------------- deserializer
class SynCons:
    def __init__(self, car, cdr):
        self.car = car
        self.cdr = cdr

    def __repr__(self):
        return "SynCons"


def value_inputs(lexpr):
    """label -> Value Adt (from serde_lexpr's point of view the type is lexpr::Value)."""
    out = []
    for var in lexpr.adts["value::Value"]["variants"]:
        nm = var["name"]
        if nm == "Number":
            nv = lexpr.adts["number::N"]["variants"]
            for x in nv:
                n = Adt("lexpr::Number", 0, [Adt("lexpr::number::N", x["idx"], [Opq("n")], x["name"])])
                out.append(("Number(%s)" % x["name"], Adt("lexpr::Value", var["idx"], [n], "Number")))
        elif nm == "Cons":
            for lab, cdr in (("Cons(cdr=Null)", "Null"), ("Cons(cdr=Cons)", "Cons"), ("Cons(cdr=atom)", "Symbol")):
                cd = _mk(lexpr, cdr)
                out.append((lab, Adt("lexpr::Value", var["idx"], [SynCons(_cell(_mk(lexpr, "Bool")), _cell(cd))], "Cons")))
        else:
            out.append((nm, _mk(lexpr, nm)))
    return out


def _mk(lexpr, name):
    for var in lexpr.adts["value::Value"]["variants"]:
        if var["name"] == name:
            if name == "Cons":
                return Adt("lexpr::Value", var["idx"], [SynCons(_cell(_mk(lexpr, "Bool")), _cell(_mk(lexpr, "Null")))], "Cons")
            return Adt("lexpr::Value", var["idx"], [Opq("payload")] * len(var["fields"]), name)
    raise KeyError(name)


def _cell(v):
    return Ref([v], 0, ())


_HELPERS = {}
DATA_ERROR_CTORS = ("serde::de::Error::invalid_type", "serde::de::Error::invalid_value", "serde::de::Error::invalid_length",
                    "serde::de::Error::custom")


def error_helpers(crate):
    """The value deserializer's own constructors of a data error (historically `invalid_value(value, expected) -> Error`):
    free functions of value/de.rs that build their result through serde::de::Error and return the crate's Error, or a
    Result that is always that error.  {path: "error" | "result"}."""
    if id(crate) not in _HELPERS:
        out = {}
        for f in crate.fns:
            if f.kind != "fn" or not f.file.endswith("value/de.rs") or f.impl_trait:
                continue
            rt = f.local_ty(0)
            is_err = rt.endswith("error::Error") and not rt.startswith("std::result::Result")
            is_res = rt.startswith("std::result::Result<") and rt.endswith("error::Error>")
            if not (is_err or is_res):
                continue
            names = set()
            for _bi, t in f.calls():
                names |= F.callee_names(t)
            if not any(n in names for n in DATA_ERROR_CTORS):
                continue
            if any(n.startswith("serde::de::Visitor::") for n in names):
                continue
            if is_res:
                # every return must be an Err: no `Ok` aggregate is built for the return place
                oks = [st for b in f.blocks for st in b["stmts"] if st["k"] == "assign" and st["rv"]["k"] == "agg"
                       and st["rv"].get("adt") == "std::result::Result" and st["rv"].get("vname") == "Ok"]
                if oks:
                    continue
            out[f.path] = "error" if is_err else "result"
        _HELPERS[id(crate)] = out
    return _HELPERS[id(crate)]


def de_hook(S, fn, bb, t, args, path):
    c = t["callee"]
    p = c.get("path", "")
    nm = F.callee_names(t)
    d = [S._deref(a, path) for a in args]
    if p in ("lexpr::Cons::cdr", "lexpr::Cons::car") and d and isinstance(d[0], SynCons):
        return ("value", d[0].cdr if p.endswith("cdr") else d[0].car)
    if (c.get("trait") or "").endswith("number::Visitor") and "resolved" not in c:
        for crate in S.crates:
            for f in crate.fns:
                if (f.impl_trait or "").endswith("number::Visitor") and f.path.endswith("::" + str(c.get("method"))) \
                        and f.file.endswith("value/de.rs"):
                    return ("inline", f)
    if c.get("trait") == "serde::de::Visitor":
        path.events.append(("visit", c.get("method"), d))
        return ("skip", Adt("std::result::Result", 0, [UNK]))
    helper = None
    for crate in S.crates:
        helper = helper or error_helpers(crate).get(c.get("resolved") or p)
    if helper is not None:
        path.events.append(("invalid_value",))
        if helper == "result":
            return ("skip", Adt("std::result::Result", 1, [T("invalid_value")]))
        return ("skip", T("invalid_value"))
    if c.get("trait") in ("serde::de::DeserializeSeed", "serde::Deserialize"):
        path.events.append(("deserialize-child",))
        return ("skip", Adt("std::result::Result", 0, [UNK]))
    return None


def deserializer_accepts(crate, lexpr):
    """method -> {input label -> outcome}, outcome = 'visit_x' | 'err' | 'panic' | mixed."""
    out = {}
    fns = [f for f in crate.fns if f.path.startswith(DE) and f.kind == "assoc"]
    inl = lambda a, b: (b.crate == crate.name and b.file.endswith("value/de.rs")) or \
                       (b.crate == "lexpr" and (b.file.endswith("value/mod.rs") or b.file.endswith("number.rs") or b.file.endswith("cons.rs")))
    inputs = value_inputs(lexpr)
    for f in fns:
        m = f.path[len(DE):]
        res = {}
        for lab, val in inputs:
            de = Adt("value::de::Deserializer", 0, [_cell(val)])
            S = sim.Sim([crate, lexpr], hooks={"call": de_hook}, inline=inl, max_depth=6, max_paths=3000)
            try:
                paths = S.run(f, args={1: _cell(de)})
            except sim.Limit:
                res[lab] = "inexact"
                continue
            kinds = set()
            for p in paths:
                if p.end == "panic" or p.end == "diverge":
                    kinds.add("panic")
                    continue
                if p.end != "return":
                    kinds.add("?" + str(p.end))
                    continue
                vis = [e[1] for e in p.events if e[0] == "visit"]
                inv = [e for e in p.events if e[0] == "invalid_value"]
                r = p.ret
                if vis:
                    kinds.add(vis[-1])
                elif isinstance(r, Adt) and r.adt.endswith("Result") and r.variant == 1 and inv:
                    kinds.add("err")
                elif inv:
                    kinds.add("err")
                else:
                    kinds.add("other")
            res[lab] = "/".join(sorted(kinds))
        out[m] = res
    return out


def other_deserializers(crate, lexpr):
    """Accept maps of every *other* type of the crate that implements serde::Deserializer (a key deserializer, a
    wrapper): {type: {method: {input label: outcome}}}.  Its fields that hold a `&Value` are given the input."""
    out = {}
    impls = {}
    for f in crate.fns:
        if f.kind == "assoc" and f.impl_trait == "serde::Deserializer" and not f.path.startswith(DE) \
                and f.file.endswith("value/de.rs"):
            impls.setdefault(f.self_ty, []).append(f)
    inl = lambda a, b: (b.crate == crate.name and b.file.endswith("value/de.rs")) or \
                       (b.crate == "lexpr" and (b.file.endswith("value/mod.rs") or b.file.endswith("number.rs") or b.file.endswith("cons.rs")))
    inputs = value_inputs(lexpr)
    for ty, fns in impls.items():
        base = ty.lstrip("&").replace("'a mut ", "").replace("mut ", "").split("<")[0]
        adt = crate.adts.get(base)
        if not adt:
            out[ty] = None
            continue
        res_t = {}
        for f in fns:
            m = f.path.rsplit("::", 1)[1]
            res = {}
            for lab, val in inputs:
                fields = [_cell(val) if "Value" in fl["ty"] else UNK for fl in adt["variants"][0]["fields"]]
                me = Adt(base, 0, fields)
                arg = _cell(me) if ty.startswith("&") else me
                S = sim.Sim([crate, lexpr], hooks={"call": de_hook}, inline=inl, max_depth=7, max_paths=3000)
                try:
                    paths = S.run(f, args={1: arg})
                except sim.Limit:
                    res[lab] = "inexact"
                    continue
                kinds = set()
                for p in paths:
                    if p.end in ("panic", "diverge"):
                        kinds.add("panic")
                        continue
                    if p.end != "return":
                        kinds.add("?" + str(p.end))
                        continue
                    vis = [e[1] for e in p.events if e[0] == "visit"]
                    inv = [e for e in p.events if e[0] == "invalid_value"]
                    if vis:
                        kinds.add(vis[-1])
                    elif inv:
                        kinds.add("err")
                    else:
                        kinds.add("other")
                res[lab] = "/".join(sorted(kinds))
            res_t[m] = res
        out[ty] = res_t
    return out
