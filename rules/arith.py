"""R-ARITH: arithmetic overflow asserts are discharged by simple range reasoning
or listed in the reviewed table (thorough tier)."""
from . import cfg, common, panics
from .report import Pool

WIDTH = {"u8": 8, "u16": 16, "u32": 32, "u64": 64, "usize": 64, "i8": 8, "i16": 16, "i32": 32, "i64": 64,
         "isize": 64, "u128": 128, "i128": 128}


def _lower_bound_from_guards(fn, defs, idom, block, op):
    """Largest K such that a dominating branch guarantees operand >= K (unsigned), else None."""
    key = panics._trace_copy(fn, defs, op, block)
    if key is None:
        return None
    best = None
    for bi, b in enumerate(fn.blocks):
        t = b["term"]
        if b.get("cleanup"):
            continue
        if t["k"] == "switch":
            sop = t["op"]
            if sop.get("c") not in ("copy", "move"):
                continue
            # (a) switch directly on the value: explicit arms
            if panics._trace_copy(fn, defs, sop, bi) == key and not sop["pl"]["p"] or \
                    (sop["pl"]["p"] and panics._place_key(sop["pl"]) == key):
                for v, tg in t["targets"]:
                    if tg != t["otherwise"] and cfg.dominates(idom, tg, block) and _single_entry(fn, tg, bi):
                        # several values may share the target: take the minimum of them
                        vals = [vv for vv, tt in t["targets"] if tt == tg]
                        k = min(vals)
                        best = k if best is None else max(best, k)
                continue
            if sop["pl"]["p"]:
                continue
            ds = [d for d in defs.get(sop["pl"]["l"], []) if d[0] == bi]
            if len(ds) != 1:
                continue
            d = ds[0][2]
            true_t = t["otherwise"]
            false_t = None
            for v, tg in t["targets"]:
                if v == 0:
                    false_t = tg
                if v == 1:
                    true_t = tg
            if ds[0][1] == "term":
                # call-defined bool: is_ascii_lowercase / is_ascii_digit / contains on a const range
                p = d["callee"].get("path", "")
                lo = None
                if p.endswith("::is_ascii_lowercase"):
                    lo = 97
                elif p.endswith("::is_ascii_uppercase"):
                    lo = 65
                elif p.endswith("::is_ascii_digit"):
                    lo = 48
                if lo is not None and panics._trace_copy(fn, defs, d["args"][0], bi) == key or \
                        (lo is not None and _deref_key(fn, defs, d["args"][0], bi) == key):
                    if true_t != false_t and cfg.dominates(idom, true_t, block):
                        best = lo if best is None else max(best, lo)
                continue
            if d.get("k") != "bin":
                continue
            a, b2, opn = d["a"], d["b"], d["op"]
            k = None
            if opn == "Le" and common.const_int(a) is not None and panics._trace_copy(fn, defs, b2, bi) == key:
                k = common.const_int(a)
            elif opn == "Lt" and common.const_int(a) is not None and panics._trace_copy(fn, defs, b2, bi) == key:
                k = common.const_int(a) + 1
            elif opn == "Ge" and common.const_int(b2) is not None and panics._trace_copy(fn, defs, a, bi) == key:
                k = common.const_int(b2)
            elif opn == "Gt" and common.const_int(b2) is not None and panics._trace_copy(fn, defs, a, bi) == key:
                k = common.const_int(b2) + 1
            if k is not None and true_t != false_t and cfg.dominates(idom, true_t, block):
                best = k if best is None else max(best, k)
    return best


def _deref_key(fn, defs, op, block):
    """key of the place a `&x` argument points to."""
    if op.get("c") not in ("copy", "move") or op["pl"]["p"]:
        return None
    ds = defs.get(op["pl"]["l"], [])
    if len(ds) != 1 or ds[0][1] == "term":
        return None
    rv = ds[0][2]
    if rv["k"] == "ref":
        pl = rv["pl"]
        if not pl["p"]:
            return panics._trace_copy(fn, defs, {"c": "copy", "pl": pl}, block)
        return panics._place_key(pl)
    return None


def _single_entry(fn, tg, frm):
    return all(p == frm for p in fn.pred_map()[tg])


def discharge(fn, it, defs, idom):
    t = it["term"]
    op = t.get("binop", "")
    ops = t["ops"]
    if len(ops) < 2:
        return None
    a, b = ops
    ca, cb = common.const_int(a), common.const_int(b)
    aty = None
    if a.get("c") == "const":
        aty = a.get("ty")
    elif not a["pl"]["p"]:
        aty = fn.local_ty(a["pl"]["l"])
    else:
        aty = None
    if op in ("Shl", "Shr") and cb is not None:
        w = WIDTH.get(aty or "", 0) or 128
        if ca is not None:
            return "constant shift"
        if 0 <= cb < (WIDTH.get(aty or "") or 8):
            return "shift by the constant %d < bit width" % cb
    if op in ("Div", "Rem") and cb is not None and cb not in (0, -1):
        return "division by the constant %d" % cb
    if op == "Add" and cb == 1 and (aty in ("usize",) or _is_usize_place(fn, a)):
        return "usize counter += 1 (bounded by the input length / address space)"
    if op == "Sub" and cb is not None and cb >= 0:
        lb = _lower_bound_from_guards(fn, defs, idom, it["block"], a)
        if lb is not None and lb >= cb:
            return "operand >= %d on every path to the subtraction of %d" % (lb, cb)
    if op == "Add" and ca is not None and b.get("c") in ("copy", "move"):
        ub = panics.upper_bound(fn, defs, b, 0)
        if ub is not None and aty in WIDTH or (ub is not None and b.get("c") in ("copy", "move")):
            bty = fn.local_ty(b["pl"]["l"]) if not b["pl"]["p"] else None
            w = WIDTH.get(bty or "")
            if w and ca + ub < (1 << w) and not (bty or "").startswith("i"):
                return "constant %d + value <= %d fits %s" % (ca, ub, bty)
    return None


def _is_usize_place(fn, op):
    if op.get("c") not in ("copy", "move"):
        return False
    pl = op["pl"]
    for e in pl["p"]:
        if isinstance(e, dict) and e.get("n") in ("index", "col", "line", "column", "start_of_line"):
            return True
    return False


def scan(rule, crate, fn_pred, table):
    n = 0
    pool = Pool(table, getattr(crate, "config", "default"), {f.path for f in crate.fns if fn_pred(f)},
                {f.path for f in crate.fns})
    for fn in crate.fns:
        if not fn_pred(fn):
            continue
        inv = [i for i in panics.inventory(fn) if i["kind"] == "overflow"]
        if not inv:
            continue
        defs = common.defs_of(fn)
        idom = cfg.dominators(fn)
        for it in inv:
            n += 1
            why = discharge(fn, it, defs, idom)
            if why:
                rule.ok("%s: %s overflow check discharged: %s" % (fn.path, it["detail"], why), fn, it["line"])
                continue
            detail = "overflow:%s" % it["detail"]

            def on_ok(ent, moved, fn=fn, it=it, detail=detail):
                rule.ok("%s | %s (reviewed%s: %s)" % (fn.path, detail, " for %s, moved" % moved if moved else "", ent["reason"]),
                        fn, it["line"])

            def on_bad(fn=fn, it=it, detail=detail):
                rule.violation("%s::%s" % (crate.name, fn.path), detail,
                               "%s: arithmetic `%s` at line %s can overflow (debug builds panic) and is neither "
                               "discharged by range reasoning nor in the reviewed table"
                               % (fn.path, it["detail"], it["line"]), fn.loc(it["line"]))

            pool.site(fn.path, detail, on_ok, on_bad)
    pool.settle()
    if pool.unused():
        rule.note("reviewed constructs no longer present: %s" % sorted(pool.unused().items()))
    rule.note("overflow asserts examined: %d" % n)
    return n
