"""R-ARITH: arithmetic overflow asserts are discharged by simple range reasoning
or listed in the reviewed table (thorough tier)."""
from . import cfg, common, facts as F, panics
from .report import Pool

WIDTH = {"u8": 8, "u16": 16, "u32": 32, "u64": 64, "usize": 64, "i8": 8, "i16": 16, "i32": 32, "i64": 64,
         "isize": 64, "u128": 128, "i128": 128}


def _lower_bound_from_guards(fn, defs, idom, block, op):
    """Largest K such that a dominating branch guarantees operand >= K (unsigned), else None."""
    key = panics._trace_copy(fn, defs, op, block)
    if key is None:
        return None
    best = None
    for bi, b in enumerate(fn.blocks):
        t = b["term"]
        if b.get("cleanup"):
            continue
        if t["k"] == "switch":
            sop = t["op"]
            if sop.get("c") not in ("copy", "move"):
                continue
            # (a) switch directly on the value: explicit arms
            if panics._trace_copy(fn, defs, sop, bi) == key and not sop["pl"]["p"] or \
                    (sop["pl"]["p"] and panics._place_key(sop["pl"]) == key):
                for v, tg in t["targets"]:
                    if tg != t["otherwise"] and cfg.dominates(idom, tg, block) and _single_entry(fn, tg, bi):
                        # several values may share the target: take the minimum of them
                        vals = [vv for vv, tt in t["targets"] if tt == tg]
                        k = min(vals)
                        best = k if best is None else max(best, k)
                continue
            if sop["pl"]["p"]:
                continue
            ds = [d for d in defs.get(sop["pl"]["l"], []) if d[0] == bi]
            if not ds:
                # a bool returned by a call is defined by the terminator of the preceding block
                alld = defs.get(sop["pl"]["l"], [])
                if len(alld) == 1 and alld[0][1] == "term":
                    ds = alld
            if len(ds) != 1:
                continue
            d = ds[0][2]
            true_t = t["otherwise"]
            false_t = None
            for v, tg in t["targets"]:
                if v == 0:
                    false_t = tg
                if v == 1:
                    true_t = tg
            if ds[0][1] == "term":
                # call-defined bool: is_ascii_lowercase / is_ascii_digit / contains on a const range
                p = d["callee"].get("path", "")
                lo = None
                if p.endswith("::is_ascii_lowercase"):
                    lo = 97
                elif p.endswith("::is_ascii_uppercase"):
                    lo = 65
                elif p.endswith("::is_ascii_digit"):
                    lo = 48
                if lo is not None and panics._trace_copy(fn, defs, d["args"][0], bi) == key or \
                        (lo is not None and _deref_key(fn, defs, d["args"][0], bi) == key):
                    if true_t != false_t and cfg.dominates(idom, true_t, block):
                        best = lo if best is None else max(best, lo)
                continue
            if d.get("k") != "bin":
                continue
            a, b2, opn = d["a"], d["b"], d["op"]
            k = None
            if opn == "Le" and common.const_int(a) is not None and panics._trace_copy(fn, defs, b2, bi) == key:
                k = common.const_int(a)
            elif opn == "Lt" and common.const_int(a) is not None and panics._trace_copy(fn, defs, b2, bi) == key:
                k = common.const_int(a) + 1
            elif opn == "Ge" and common.const_int(b2) is not None and panics._trace_copy(fn, defs, a, bi) == key:
                k = common.const_int(b2)
            elif opn == "Gt" and common.const_int(b2) is not None and panics._trace_copy(fn, defs, a, bi) == key:
                k = common.const_int(b2) + 1
            if k is not None and true_t != false_t and cfg.dominates(idom, true_t, block):
                best = k if best is None else max(best, k)
    return best


def _deref_key(fn, defs, op, block):
    """key of the place a `&x` argument points to."""
    if op.get("c") not in ("copy", "move") or op["pl"]["p"]:
        return None
    ds = defs.get(op["pl"]["l"], [])
    if len(ds) != 1 or ds[0][1] == "term":
        return None
    rv = ds[0][2]
    if rv["k"] == "ref":
        pl = rv["pl"]
        if not pl["p"]:
            return panics._trace_copy(fn, defs, {"c": "copy", "pl": pl}, block)
        return panics._place_key(pl)
    return None


def _single_entry(fn, tg, frm):
    return all(p == frm for p in fn.pred_map()[tg])


def _upper_bound_from_guards(fn, defs, idom, block, op):
    """Smallest K such that a dominating branch guarantees operand <= K (unsigned), else None.  The operand is
    followed through value-preserving widening casts (`c as u32` of a u8)."""
    for _ in range(4):
        if op.get("c") in ("copy", "move") and not op["pl"]["p"]:
            ds = defs.get(op["pl"]["l"], [])
            if len(ds) == 1 and ds[0][1] != "term" and ds[0][2]["k"] == "cast" and ds[0][2]["ck"].startswith("IntToInt") \
                    and WIDTH.get(ds[0][2]["from"], 999) <= WIDTH.get(ds[0][2]["to"], 0) and not ds[0][2]["from"].startswith("i"):
                op = ds[0][2]["op"]
                continue
        break
    key = panics._trace_copy(fn, defs, op, block)
    if key is None:
        return None
    best = None
    for bi, b in enumerate(fn.blocks):
        t = b["term"]
        if b.get("cleanup") or t["k"] != "switch":
            continue
        sop = t["op"]
        if sop.get("c") not in ("copy", "move") or sop["pl"]["p"]:
            continue
        ds = [d for d in defs.get(sop["pl"]["l"], []) if d[0] == bi and d[1] != "term"]
        if len(ds) != 1 or ds[0][2].get("k") != "bin":
            continue
        d = ds[0][2]
        a, b2, opn = d["a"], d["b"], d["op"]
        true_t = false_t = t["otherwise"]
        for v, tg in t["targets"]:
            if v == 0:
                false_t = tg
            if v == 1:
                true_t = tg
        if true_t == false_t:
            continue
        k = edge = None
        ka, kb = common.const_int(a), common.const_int(b2)
        if kb is not None and panics._trace_copy(fn, defs, a, bi) == key:
            if opn == "Lt":
                k, edge = kb - 1, true_t
            elif opn == "Le":
                k, edge = kb, true_t
            elif opn == "Ge":
                k, edge = kb - 1, false_t
            elif opn == "Gt":
                k, edge = kb, false_t
        elif ka is not None and panics._trace_copy(fn, defs, b2, bi) == key:
            if opn == "Gt":
                k, edge = ka - 1, true_t
            elif opn == "Ge":
                k, edge = ka, true_t
            elif opn == "Le":
                k, edge = ka - 1, false_t
            elif opn == "Lt":
                k, edge = ka, false_t
        if k is not None and cfg.dominates(idom, edge, block) and _single_entry(fn, edge, bi):
            best = k if best is None else min(best, k)
    return best


def discharge(fn, it, defs, idom, crate=None):
    _CRATE[0] = crate
    t = it["term"]
    op = t.get("binop", "")
    ops = t["ops"]
    if len(ops) < 2:
        return None
    a, b = ops
    ca, cb = common.const_int(a), common.const_int(b)
    aty = None
    if a.get("c") == "const":
        aty = a.get("ty")
    elif not a["pl"]["p"]:
        aty = fn.local_ty(a["pl"]["l"])
    else:
        aty = None
    if op in ("Shl", "Shr") and cb is not None:
        w = WIDTH.get(aty or "", 0) or 128
        if ca is not None:
            return "constant shift"
        if 0 <= cb < (WIDTH.get(aty or "") or 8):
            return "shift by the constant %d < bit width" % cb
    if op in ("Shl", "Shr") and cb is None and b.get("c") in ("copy", "move"):
        ub = _upper_bound_from_guards(fn, defs, idom, it["block"], b)
        w = WIDTH.get(aty or "")
        if ub is not None and w and ub < w:
            return "shift amount <= %d < bit width on every path to the shift" % ub
    if op in ("Div", "Rem") and cb is not None and cb not in (0, -1):
        return "division by the constant %d" % cb
    if op in ("Div", "Rem") and ca is not None and aty in WIDTH and ca != -(1 << (WIDTH[aty] - 1)):
        # signed division overflows only for MIN / -1
        return "the dividend is the constant %d, not %s::MIN" % (ca, aty)
    if op in ("Shl", "Shr") and crate is not None and b.get("c") in ("copy", "move"):
        # shift amount = a parameter of a private function that every call site sets to a small constant
        o = common.origin(fn, defs, b)
        if o["k"] == "param" and not fn.is_pub:
            k = o["l"]
            amounts = set()
            for g, bi, t2 in common.iter_calls(crate):
                c2 = t2["callee"]
                if (c2.get("resolved") or c2.get("path")) != fn.path:
                    continue
                v = common.const_int(t2["args"][k - 1]) if len(t2["args"]) >= k else None
                if v is None:
                    amounts = None
                    break
                amounts.add(v)
            w = WIDTH.get(aty or "") or 8
            if amounts and all(0 <= v < w for v in amounts):
                return "shift amount is parameter %d, always one of %s (< %d) at its call sites" % (k, sorted(amounts), w)
    if op == "Add" and _mem_bounded(fn, defs, a, 0) and _mem_bounded(fn, defs, b, 0):
        return "sum of two quantities bounded by the size of an in-memory slice (each <= isize::MAX)"
    if op == "Sub" and _sub_len_minus_position(fn, defs, a, b):
        return "slice length minus (a position found in that slice + 1): position < length"
    if op == "Add" and cb == 1 and (aty in ("usize",) or _is_usize_place(fn, a)):
        return "usize counter += 1 (bounded by the input length / address space)"
    if op == "Sub" and crate is not None:
        why = _field_order(crate, fn, a, b, it.get("block"))
        if why:
            return why
    if op == "Sub" and cb is not None and cb >= 0:
        lb = _lower_bound_from_guards(fn, defs, idom, it["block"], a)
        if lb is not None and lb >= cb:
            return "operand >= %d on every path to the subtraction of %d" % (lb, cb)
    if op == "Add" and ca is not None and b.get("c") in ("copy", "move"):
        ub = panics.upper_bound(fn, defs, b, 0)
        if ub is not None and aty in WIDTH or (ub is not None and b.get("c") in ("copy", "move")):
            bty = fn.local_ty(b["pl"]["l"]) if not b["pl"]["p"] else None
            w = WIDTH.get(bty or "")
            if w and ca + ub < (1 << w) and not (bty or "").startswith("i"):
                return "constant %d + value <= %d fits %s" % (ca, ub, bty)
    return None


_ORDER = {}


def _field_of(op):
    """(adt, field name, base local) of an operand `copy (*base).field` / `copy base.field`, else None."""
    if op.get("c") not in ("copy", "move"):
        return None
    p = [e for e in op["pl"]["p"] if e != "*"]
    if len(p) != 1 or not isinstance(p[0], dict) or "f" not in p[0] or not p[0].get("adt"):
        return None
    return p[0]["adt"], p[0]["n"], op["pl"]["l"]


def _field_order(crate, fn, a, b, block=None):
    """`x.hi - x.lo` for two private usize fields of one struct of this crate with the invariant lo <= hi:
    every value of the struct is built with lo <= hi (constants, or both from the same operand), `hi` is only ever
    increased (`hi = hi + n`, overflow-checked), `lo` is only ever assigned the current `hi` of the same object, and
    no mutable reference to either field is taken."""
    defs = common.defs_of(fn)

    reads = []

    def via(op):
        f = _field_of(op)
        if not f and op.get("c") in ("copy", "move") and not op["pl"]["p"]:
            ds = defs.get(op["pl"]["l"], [])
            if len(ds) == 1 and ds[0][1] != "term" and ds[0][2]["k"] == "use":
                f = _field_of(ds[0][2]["op"])
                reads.append((ds[0][0], ds[0][1]))
        return f

    fa, fb = via(a), via(b)
    if reads:
        # both fields are read in one block with nothing stored through a reference or field in between or after
        blocks = {bi for bi, _ in reads}
        if len(blocks) != 1 or (block is not None and blocks != {block}):
            return None
        bi = blocks.pop()
        first = min(si for _, si in reads)
        for st in fn.blocks[bi]["stmts"][first:]:
            if st["k"] == "assign" and st["place"]["p"]:
                return None
    if not fa or not fb or fa[0] != fb[0] or fa[2] != fb[2] or fa[1] == fb[1]:
        return None
    adt, hi, lo = fa[0], fa[1], fb[1]
    key = (crate.name, adt, hi, lo)
    if key not in _ORDER:
        _ORDER[key] = _prove_order(crate, adt, hi, lo)
    if _ORDER[key]:
        return "struct invariant %s.%s <= .%s (%s)" % (adt.rsplit("::", 1)[-1], lo, hi, _ORDER[key])
    return None


def _prove_order(crate, adt, hi, lo):
    a = crate.adts.get(adt)
    if not a or a.get("kind") != "struct":
        return None
    fields = a["variants"][0]["fields"]
    names = [f["name"] for f in fields]
    if hi not in names or lo not in names:
        return None
    ih, il = names.index(hi), names.index(lo)
    if any(fields[i]["ty"] != "usize" or fields[i].get("pub") for i in (ih, il)):
        return None
    n_build = n_hi = n_lo = 0

    def touches(pl, name):
        return any(isinstance(e, dict) and e.get("adt") == adt and e.get("n") == name for e in pl["p"])

    for g in crate.fns:
        gd = None
        for bi, blk in enumerate(g.blocks):
            if blk.get("cleanup"):
                continue
            for si, st in enumerate(blk["stmts"]):
                if st["k"] != "assign":
                    continue
                rv, pl = st["rv"], st["place"]
                if rv["k"] == "agg" and rv.get("adt") == adt:
                    h, l = rv["fields"][ih], rv["fields"][il]
                    ch, cl = common.const_int(h), common.const_int(l)
                    if not (ch is not None and cl is not None and cl <= ch):
                        return None
                    n_build += 1
                if rv["k"] == "ref" and rv.get("mut") and (touches(rv["pl"], hi) or touches(rv["pl"], lo)) \
                        and rv["pl"]["p"] and isinstance(rv["pl"]["p"][-1], dict) and rv["pl"]["p"][-1].get("n") in (hi, lo):
                    return None
                if rv["k"] == "raw" and (touches(rv.get("pl", {"p": []}), hi) or touches(rv.get("pl", {"p": []}), lo)):
                    return None
                last = pl["p"][-1] if pl["p"] else None
                if not (isinstance(last, dict) and last.get("adt") == adt and last.get("n") in (hi, lo)):
                    continue
                gd = gd or common.defs_of(g)
                base = pl["l"]
                if last["n"] == lo:
                    # lo = copy base.hi, in the same block (nothing in between can lower hi: hi is never lowered)
                    src = rv.get("op") if rv["k"] == "use" else None
                    f = _field_of(src) if src else None
                    if not f and src and src.get("c") in ("copy", "move") and not src["pl"]["p"]:
                        ds = gd.get(src["pl"]["l"], [])
                        if len(ds) == 1 and ds[0][1] != "term" and ds[0][2]["k"] == "use":
                            f = _field_of(ds[0][2]["op"])
                    if not f or f[0] != adt or f[1] != hi or f[2] != base:
                        return None
                    n_lo += 1
                else:
                    # hi = (hi + n).0 after the overflow assert, or hi + n
                    src = rv.get("op") if rv["k"] == "use" else None
                    d = None
                    if rv["k"] == "bin":
                        d = rv
                    elif src and src.get("c") in ("copy", "move"):
                        sp = src["pl"]
                        if len(sp["p"]) == 1 and isinstance(sp["p"][0], dict) and sp["p"][0].get("f") == 0:
                            ds = gd.get(sp["l"], [])
                            if len(ds) == 1 and ds[0][1] != "term" and ds[0][2]["k"] == "bin":
                                d = ds[0][2]
                    if not d or d["op"] not in ("Add", "AddWithOverflow") or d.get("aty") != "usize":
                        return None
                    f = _field_of(d["a"])
                    if not f and d["a"].get("c") in ("copy", "move") and not d["a"]["pl"]["p"]:
                        ds = gd.get(d["a"]["pl"]["l"], [])
                        if len(ds) == 1 and ds[0][1] != "term" and ds[0][2]["k"] == "use":
                            f = _field_of(ds[0][2]["op"])
                    if not f or f[0] != adt or f[1] != hi or f[2] != base:
                        return None
                    n_hi += 1
    if not n_build:
        return None
    return "%d constructions with %s <= %s, %d increments of %s, %d assignments %s = %s" % (n_build, lo, hi, n_hi, hi, n_lo, lo, hi)


_BOUNDED_CALLS = ("<impl [T]>::len", "<impl str>::len", "Vec::<T, A>::len", "std::iter::Iterator::count",
                  "std::iter::Iterator::position", "std::iter::Iterator::rposition", "memchr", "<impl [T]>::partition_point")


_CRATE = [None]


def _mem_bounded(fn, defs, op, depth):
    """A usize that counts elements / bytes of something held in memory (a length, a count, a position, a small
    constant, or sums' operands thereof): never more than isize::MAX."""
    if depth > 6:
        return False
    c = common.const_int(op)
    if c is not None:
        return 0 <= c < (1 << 32)
    if op.get("c") not in ("copy", "move"):
        return False
    pl = op["pl"]
    if pl["p"] and isinstance(pl["p"][-1], dict) and pl["p"][-1].get("n") == "index" \
            and (pl["p"][-1].get("adt") or "").endswith("SliceRead"):
        return True      # the slice reader's cursor: a position in its slice
    if pl["p"]:
        # the payload of Option<usize> returned by position()/rposition()
        if any(isinstance(e, dict) and e.get("n") == "Some" for e in pl["p"]):
            ds = defs.get(pl["l"], [])
            return len(ds) == 1 and ds[0][1] == "term" and any(
                n.endswith(x) for n in F.callee_names(ds[0][2]) for x in _BOUNDED_CALLS)
        return False
    if fn.local_ty(pl["l"]) != "usize":
        return False
    ds = defs.get(pl["l"], [])
    if len(ds) != 1:
        return False
    (_b, si, d) = ds[0]
    if si == "term":
        if d.get("k") != "call":
            return False
        if any(n.endswith(x) for n in F.callee_names(d) for x in _BOUNDED_CALLS):
            return True
        p = d["callee"].get("path", "")
        if p == "std::option::Option::<T>::unwrap_or" and len(d["args"]) == 2:
            # `position(..).unwrap_or(len)`: both alternatives count memory
            o = d["args"][0]
            ods = defs.get(o["pl"]["l"], []) if o.get("c") in ("copy", "move") and not o["pl"]["p"] else []
            return len(ods) == 1 and ods[0][1] == "term" and any(
                n.endswith(x) for n in F.callee_names(ods[0][2]) for x in _BOUNDED_CALLS) \
                and _mem_bounded(fn, defs, d["args"][1], depth + 1)
        # a local function whose every return value counts memory (`fn count_newlines(b: &[u8]) -> usize { ..count() }`)
        g = _CRATE[0].fn(d["callee"].get("resolved") or p) if _CRATE[0] is not None else None
        if g is not None and g is not fn and g.local_ty(0) == "usize" and depth < 4:
            gd = common.defs_of(g)
            rets = gd.get(0, [])
            return bool(rets) and all(
                (r[1] == "term" and any(n.endswith(x) for n in F.callee_names(r[2]) for x in _BOUNDED_CALLS)) or
                (r[1] != "term" and r[2]["k"] == "use" and _mem_bounded(g, gd, r[2]["op"], depth + 1)) for r in rets)
        return False
    if d["k"] == "use":
        return _mem_bounded(fn, defs, d["op"], depth + 1)
    if d["k"] == "un" and d["op"] == "PtrMetadata":
        return True
    return False


def _sub_len_minus_position(fn, defs, a, b):
    """`s.len() - (s.iter().rposition(..) + 1)`-style: a is a slice length, b is a found position (+ 1)."""
    def is_len(op):
        if op.get("c") not in ("copy", "move") or op["pl"]["p"]:
            return False
        ds = defs.get(op["pl"]["l"], [])
        if len(ds) != 1:
            return False
        (_b, si, d) = ds[0]
        if si == "term":
            return any(n.endswith(x) for n in F.callee_names(d) for x in ("<impl [T]>::len", "<impl str>::len"))
        return d["k"] == "un" and d["op"] == "PtrMetadata" or (d["k"] == "use" and is_len(d["op"]))

    def is_pos_plus(op, depth=0):
        if depth > 4 or op.get("c") not in ("copy", "move"):
            return False
        pl = op["pl"]
        if any(isinstance(e, dict) and e.get("n") == "Some" for e in pl["p"]):
            ds = defs.get(pl["l"], [])
            return len(ds) == 1 and ds[0][1] == "term" and any(
                n.endswith(x) for n in F.callee_names(ds[0][2]) for x in ("Iterator::position", "Iterator::rposition"))
        if pl["p"] == [{"f": 0}] or (len(pl["p"]) == 1 and isinstance(pl["p"][0], dict) and pl["p"][0].get("f") == 0):
            ds = defs.get(pl["l"], [])
            if len(ds) == 1 and ds[0][1] != "term" and ds[0][2]["k"] == "bin" and ds[0][2]["op"] == "AddWithOverflow" \
                    and common.const_int(ds[0][2]["b"]) == 1:
                return is_pos_plus(ds[0][2]["a"], depth + 1)
            return False
        if pl["p"]:
            return False
        ds = defs.get(pl["l"], [])
        if len(ds) == 1 and ds[0][1] != "term" and ds[0][2]["k"] == "use":
            return is_pos_plus(ds[0][2]["op"], depth + 1)
        return False
    def root(op, depth=0):
        """The local / parameter a length or an iterator is ultimately taken from (through calls' receivers)."""
        for _ in range(8):
            o = common.origin(fn, defs, op)
            if o["k"] == "param":
                return ("param", o["l"])
            if o["k"] == "place":
                pl = o["pl"]
                base = {"c": "copy", "pl": {"l": pl["l"], "p": []}}
                if pl["p"] and any(isinstance(e, dict) and e.get("n") == "Some" for e in pl["p"]):
                    op = base
                    continue
                return ("place", pl["l"], tuple(repr(e) for e in pl["p"]))
            if o["k"] == "call" and o["t"]["args"]:
                op = o["t"]["args"][0]
                continue
            if o["k"] == "other" and o["rv"] and o["rv"].get("k") == "un":
                op = o["rv"]["a"]
                continue
            return None
        return None

    def pos_source(op, depth=0):
        # strip `+ 1` and copies down to the position()/rposition() call, then take its receiver
        for _ in range(6):
            if op.get("c") not in ("copy", "move"):
                return None
            pl = op["pl"]
            ds = defs.get(pl["l"], [])
            if len(ds) != 1:
                return None
            (_b, si, d) = ds[0]
            if si == "term":
                return d["args"][0] if d.get("args") else None
            if d["k"] == "bin":
                op = d["a"]
            elif d["k"] == "use":
                op = d["op"]
            else:
                return None
        return None

    if is_pos_plus(b) and not is_len(a):
        # `i - (pos + 1)` where the position was found in `&s[..i]`: that slice's length is i
        src = pos_source(b)
        ka = panics._trace_copy(fn, defs, a, 0)
        for _ in range(6):
            if src is None or ka is None:
                break
            o = common.origin(fn, defs, src)
            if o["k"] == "call" and o["t"]["callee"].get("trait") == "std::ops::Index" and len(o["t"]["args"]) == 2:
                rg = common.origin(fn, defs, o["t"]["args"][1])
                if rg["k"] == "agg" and rg["rv"].get("adt") == "std::ops::RangeTo" and rg["rv"]["fields"]:
                    return panics._trace_copy(fn, defs, rg["rv"]["fields"][0], 0) == ka
                return False
            if o["k"] == "call" and o["t"]["args"]:
                src = o["t"]["args"][0]       # iter() of ..., &mut of ...
                continue
            break
        return False
    if not (is_len(a) and is_pos_plus(b)):
        return False
    ra, src = root(a), pos_source(b)
    rb = root(src) if src is not None else None
    return ra is not None and ra == rb


def _is_usize_place(fn, op):
    if op.get("c") not in ("copy", "move"):
        return False
    pl = op["pl"]
    for e in pl["p"]:
        if isinstance(e, dict) and e.get("n") in ("index", "col", "line", "column", "start_of_line"):
            return True
    return False


def scan(rule, crate, fn_pred, table):
    n = 0
    pool = Pool(table, getattr(crate, "config", "default"), {f.path for f in crate.fns if fn_pred(f)},
                {f.path for f in crate.fns})
    for fn in crate.fns:
        if not fn_pred(fn):
            continue
        inv = [i for i in panics.inventory(fn) if i["kind"] == "overflow"]
        if not inv:
            continue
        defs = common.defs_of(fn)
        idom = cfg.dominators(fn)
        for it in inv:
            n += 1
            why = discharge(fn, it, defs, idom, crate)
            if why:
                rule.ok("%s: %s overflow check discharged: %s" % (fn.path, it["detail"], why), fn, it["line"])
                continue
            detail = "overflow:%s" % it["detail"]

            def on_ok(ent, moved, fn=fn, it=it, detail=detail):
                rule.ok("%s | %s (reviewed%s: %s)" % (fn.path, detail, " for %s, moved" % moved if moved else "", ent["reason"]),
                        fn, it["line"])

            def on_bad(fn=fn, it=it, detail=detail):
                rule.violation("%s::%s" % (crate.name, fn.path), detail,
                               "%s: arithmetic `%s` at line %s can overflow (debug builds panic) and is neither "
                               "discharged by range reasoning nor in the reviewed table"
                               % (fn.path, it["detail"], it["line"]), fn.loc(it["line"]))

            pool.site(fn.path, detail, on_ok, on_bad)
    pool.settle()
    if pool.unused():
        rule.note("reviewed constructs no longer present: %s" % sorted(pool.unused().items()))
    rule.note("overflow asserts examined: %d" % n)
    return n
