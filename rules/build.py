"""ensure_facts(): build MIR fact files from /repo's *current working tree*.

Facts are cached per tree hash under /verif/.work/<hash>/ so that many checks on
the same tree pay for the cargo build once.  Every build uses a fresh
CARGO_TARGET_DIR (cargo silently skips RUSTC_WORKSPACE_WRAPPER on a warm one),
which is deleted as soon as the JSON has been written.
"""
import fcntl
import hashlib
import json
import os
import shutil
import subprocess
import sys
import tempfile
import time

VERIF = os.path.dirname(os.path.dirname(os.path.abspath(__file__)))
REPO = os.environ.get("VERIF_REPO", "/repo")
WORK = os.path.join(VERIF, ".work")
DRIVER_DIR = os.path.join(VERIF, "tools", "mirfacts")
DRIVER = os.path.join(DRIVER_DIR, "target", "release", "mirfacts")

# kind -> list of fact files it must produce
KINDS = {
    "poly": ["lexpr.default.json", "lexpr_macros.default.json", "serde_lexpr.default.json"],
    "nofast": ["lexpr.nofast.json"],
    "mono": ["roots.mono.json", "roots.mono.mono.json"],
    "fixtures": ["fixtures.fx.json", "fixtures.fx.mono.json"],
}


class MachineryError(Exception):
    pass


def tree_hash():
    h = hashlib.sha256()
    files = []
    # the fact files are rewritten in the reviewed vocabulary (rules/rename.py): what decides that is part of the key
    files += [os.path.join(VERIF, "rules", "rename.py"), os.path.join(VERIF, "tables", "baseline_names.json")]
    files = [f for f in files if os.path.exists(f)]
    for base in (REPO, os.path.join(VERIF, "roots"), os.path.join(VERIF, "fixtures"), os.path.join(DRIVER_DIR, "src")):
        for root, dirs, fs in os.walk(base):
            dirs[:] = sorted(d for d in dirs if d not in ("target", ".git", "msrv-test"))
            for f in sorted(fs):
                # the harness crates' Cargo.lock is a copy of the repository's, rewritten by cargo while a build
                # runs: hashing it would make the key flicker under a concurrent check
                if f.endswith(".rs") or f == "Cargo.toml" or (f == "Cargo.lock" and base == REPO):
                    files.append(os.path.join(root, f))
    for p in files:
        h.update(p.encode())
        h.update(b"\0")
        with open(p, "rb") as fh:
            h.update(fh.read())
        h.update(b"\0")
    return h.hexdigest()[:20]


def _sysroot_lib():
    out = subprocess.run(["rustc", "+nightly", "--print", "sysroot"], capture_output=True, text=True)
    if out.returncode != 0:
        raise MachineryError("nightly toolchain not available: " + out.stderr)
    return os.path.join(out.stdout.strip(), "lib")


def ensure_driver():
    if os.path.exists(DRIVER):
        src_m = max(os.path.getmtime(os.path.join(DRIVER_DIR, "src", f)) for f in os.listdir(os.path.join(DRIVER_DIR, "src")))
        if os.path.getmtime(DRIVER) >= src_m:
            return
    env = dict(os.environ, CARGO_NET_OFFLINE="true")
    r = subprocess.run(["cargo", "build", "--release", "--offline"], cwd=DRIVER_DIR, env=env,
                       capture_output=True, text=True)
    if r.returncode != 0 or not os.path.exists(DRIVER):
        raise MachineryError("cannot build mirfacts driver:\n" + r.stderr[-4000:])


def _cargo(cwd, args, out, config, target, extra_env=None):
    env = dict(os.environ)
    env.update({
        "CARGO_NET_OFFLINE": "true",
        "LD_LIBRARY_PATH": _sysroot_lib() + ":" + env.get("LD_LIBRARY_PATH", ""),
        "RUSTFLAGS": "-Zmir-opt-level=0 -Zalways-encode-mir -Awarnings",
        "RUSTC_WORKSPACE_WRAPPER": DRIVER,
        "CARGO_TARGET_DIR": target,
        "MIRFACTS_OUT": out,
        "MIRFACTS_CONFIG": config,
    })
    env.pop("RUSTC_WRAPPER", None)
    if extra_env:
        env.update(extra_env)
    r = subprocess.run(["cargo", "+nightly", "check", "--offline"] + args, cwd=cwd, env=env,
                       capture_output=True, text=True)
    return r


_HARNESS_TMP = []


def _sync_lock(crate_dir):
    """Harness crates path-depending on the repository use its Cargo.lock.  When VERIF_REPO points
    somewhere else than /repo (scratch worktrees used for mutation testing) the harness crate is
    copied to a scratch directory with its path dependencies rewritten; returns the directory to build."""
    src = os.path.join(REPO, "Cargo.lock")
    if os.path.realpath(REPO) != "/repo":
        tmp = tempfile.mkdtemp(prefix="harness-", dir=WORK)
        _HARNESS_TMP.append(tmp)
        dst_dir = os.path.join(tmp, os.path.basename(crate_dir))
        shutil.copytree(crate_dir, dst_dir, ignore=shutil.ignore_patterns("target", "Cargo.lock"))
        ct = os.path.join(dst_dir, "Cargo.toml")
        with open(ct) as fh:
            txt = fh.read()
        with open(ct, "w") as fh:
            fh.write(txt.replace('"/repo/', '"%s/' % os.path.realpath(REPO)))
        crate_dir = dst_dir
    dst = os.path.join(crate_dir, "Cargo.lock")
    if os.path.exists(src):
        shutil.copyfile(src, dst)
    return crate_dir


def _build_kind(kind, outdir, log):
    tmp_target = tempfile.mkdtemp(prefix="tgt-", dir=WORK)
    try:
        if kind == "poly":
            r = _cargo(REPO, ["--workspace"], outdir, "default", tmp_target)
        elif kind == "nofast":
            r = _cargo(REPO, ["-p", "lexpr", "--no-default-features"], outdir, "nofast", tmp_target,
                       {"MIRFACTS_CRATES": "lexpr"})
        elif kind == "mono":
            d = _sync_lock(os.path.join(VERIF, "roots"))
            r = _cargo(d, [], outdir, "mono", tmp_target,
                       {"MIRFACTS_CRATES": "roots", "MIRFACTS_MONO": "roots"})
        elif kind == "fixtures":
            d = _sync_lock(os.path.join(VERIF, "fixtures"))
            r = _cargo(d, [], outdir, "fx", tmp_target,
                       {"MIRFACTS_CRATES": "fixtures", "MIRFACTS_MONO": "fixtures"})
        else:
            raise MachineryError("unknown fact kind " + kind)
        log.write("==== %s rc=%d ====\n%s\n" % (kind, r.returncode, r.stderr[-6000:]))
        return r
    finally:
        shutil.rmtree(tmp_target, ignore_errors=True)
        for d in _HARNESS_TMP:
            shutil.rmtree(d, ignore_errors=True)
        del _HARNESS_TMP[:]


class BuildFailure(Exception):
    """/repo (or a harness crate against /repo's API) does not compile."""

    def __init__(self, kind, stderr):
        Exception.__init__(self, "build of fact kind %s failed" % kind)
        self.kind = kind
        self.stderr = stderr


def ensure_facts(kinds):
    """Return the directory holding the fact files for the current tree."""
    os.makedirs(WORK, exist_ok=True)
    glock = open(os.path.join(WORK, ".lock"), "w")
    fcntl.flock(glock, fcntl.LOCK_EX)
    try:
        # global section: the driver binary and the clean-up of stale directories
        ensure_driver()
        h = tree_hash()
        outdir = os.path.join(WORK, h)
        os.makedirs(outdir, exist_ok=True)
        os.utime(outdir, None)
        # drop facts of older trees (keep disk use flat)
        for d in os.listdir(WORK):
            p = os.path.join(WORK, d)
            if os.path.isdir(p) and d != h and not d.startswith("tgt-") and not d.startswith("harness-") \
                    and d not in ("evidence-scratch",):
                if time.time() - os.path.getmtime(p) > 7200:
                    shutil.rmtree(p, ignore_errors=True)
            elif os.path.isdir(p) and (d.startswith("tgt-") or d.startswith("harness-")) \
                    and time.time() - os.path.getmtime(p) > 3600:
                shutil.rmtree(p, ignore_errors=True)
    finally:
        fcntl.flock(glock, fcntl.LOCK_UN)
        glock.close()
    # per-tree section: different trees (scratch worktrees of the seeded / benign corpora) build concurrently
    lock = open(os.path.join(outdir, ".lock"), "w")
    fcntl.flock(lock, fcntl.LOCK_EX)
    try:
        if "mono" in kinds and "poly" not in kinds:
            kinds = list(kinds) + ["poly"]      # the mono graph is renamed with the plan found on the crates' own facts
        kinds = sorted(kinds, key=lambda k: k != "poly")
        with open(os.path.join(outdir, "build.log"), "a") as log:
            for kind in kinds:
                need = [f for f in KINDS[kind] if not _nonempty(os.path.join(outdir, f))]
                if not need:
                    continue
                fail = os.path.join(outdir, kind + ".failed")
                if os.path.exists(fail):
                    raise BuildFailure(kind, open(fail).read())
                r = _build_kind(kind, outdir, log)
                missing = [f for f in KINDS[kind] if not _nonempty(os.path.join(outdir, f))]
                if r.returncode != 0 or missing:
                    msg = r.stderr[-6000:] + ("\nmissing fact files: %s" % missing if missing else "")
                    with open(fail, "w") as fh:
                        fh.write(msg)
                    raise BuildFailure(kind, msg)
                _normalise(kind, outdir)
        os.utime(outdir, None)
        return outdir
    finally:
        fcntl.flock(lock, fcntl.LOCK_UN)
        lock.close()


def _normalise(kind, outdir):
    """Bring the fact files just written back to the reviewed vocabulary (see rules/rename.py)."""
    if kind == "fixtures" or os.environ.get("VERIF_NO_RENAME"):
        return
    from . import rename
    rp = os.path.join(outdir, "renames.json")
    done = {}
    if os.path.exists(rp):
        with open(rp) as fh:
            done = json.load(fh)
    if kind == "mono":
        pl = rename.normalise(outdir, KINDS[kind], use_plan=done["poly"])
    else:
        pl = rename.normalise(outdir, KINDS[kind])
    done[kind] = pl
    with open(rp + ".tmp", "w") as fh:
        json.dump(done, fh, indent=1, sort_keys=True)
    os.replace(rp + ".tmp", rp)


def _nonempty(p):
    return os.path.exists(p) and os.path.getsize(p) > 100


if __name__ == "__main__":
    kinds = sys.argv[1:] or ["poly"]
    t = time.time()
    d = ensure_facts(kinds)
    print(d, "%.1fs" % (time.time() - t))
