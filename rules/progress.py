"""R-PROGRESS: every lexer loop makes progress; successful items consume input."""
from . import cfg, common, facts as F, lex, sim
from .sim import Adt, Opq, UNK

PRIMS = (
    "parse::read::Read::next", "parse::read::Read::discard",
    "parse::Parser::<R>::eat_char", "parse::Parser::<R>::next_char", "parse::Parser::<R>::next_char_or_null",
    "parse::read::next_or_eof", "parse::read::next_or_eof_char",
)
FINITE_ITER_SELF = ("std::slice::Iter<", "std::ops::Range<", "std::iter::Enumerate<std::slice::Iter<",
                    "std::ops::RangeInclusive<", "std::slice::IterMut<", "std::iter::Zip<std::slice::Iter<")

IMPLS = {
    "io": {
        "parse::read::Read::parse_symbol": "<parse::read::IoRead<R> as parse::read::Read<'de>>::parse_symbol",
    },
    "slice": {
        "parse::read::Read::parse_symbol": "<parse::read::SliceRead<'a> as parse::read::Read<'a>>::parse_symbol",
    },
}


def sticky_reader_hook(d, crate, variant, inline_all):
    """peek keeps returning the injected byte until it is consumed; any read after a
    consumption stops the path (progress has been proven for that path)."""

    def hook(S, fn, bb, t, args, path):
        names = F.callee_names(t)
        if lex.consumed(path) and (lex.is_read_call(names) or any(n in names for n in lex.DISCARDS)):
            return ("stop", "consumed")
        for tr, impl in IMPLS[variant].items():
            if tr in names and "resolved" not in t["callee"]:
                f = crate.fn(impl)
                if f is not None:
                    return ("inline", f)
        if lex.is_read_call(names):
            opt = lex.some(d) if d is not None else lex.none()
            if lex.SLICE_PEEK in names:
                return ("value", opt)
            return ("value", lex.ok(opt))
        return None

    return hook


def ok_consuming(rule, crate, fn_path, mode, label):
    """Every path of `fn_path` that returns success has consumed at least one byte.

    mode 'some': success = Ok(Some(_)); mode 'ok': success = Ok(_)."""
    fn = crate.fn(fn_path)
    if fn is None:
        rule.anchor_missing(fn_path)
        return
    inl = lambda a, b: b.crate == "lexpr" and (b.file.endswith("parse/mod.rs") or b.file.endswith("parse/read.rs"))
    for variant in ("io", "slice"):
        bad = {}
        inexact = {}
        npaths = 0
        for d in list(range(256)) + [None]:
            S = sim.Sim([crate], hooks={"call": sticky_reader_hook(d, crate, variant, True)}, inline=inl,
                        max_depth=9, max_paths=20000)
            try:
                paths = S.run(fn)
            except sim.Limit as e:
                inexact[d] = str(e)
                continue
            for p in paths:
                npaths += 1
                if p.end != "return":
                    continue
                r = p.ret
                succ = None
                if isinstance(r, Adt) and r.adt.endswith("Result"):
                    if r.variant == 1:
                        succ = False
                    elif mode == "ok":
                        succ = True
                    else:
                        o = r.fields[0]
                        if isinstance(o, Adt) and o.adt.endswith("Option"):
                            succ = o.variant == 1
                if succ is None:
                    inexact[d] = "return value not determined: %r" % (r,)
                    continue
                if succ and not lex.consumed(p):
                    bad.setdefault(d, p)
        if inexact:
            rule.violation(fn_path, "inexact:%s" % variant,
                           "%s [%s reader]: the analysis could not determine the outcome for first bytes %s (%s); "
                           "failing closed" % (fn_path, variant, lex.fmt_bytes(inexact.keys()), list(inexact.values())[0]),
                           fn.loc())
        elif bad:
            rule.violation(fn_path, "succeeds-without-consuming:%s" % variant,
                           "%s [%s reader] can return success without consuming any input when the next byte is %s: "
                           "%s" % (fn_path, variant, lex.fmt_bytes(bad.keys()), label), fn.loc())
        else:
            rule.ok("%s [%s reader]: for each of the 257 first-byte cases (%d abstract paths) every successful "
                    "return consumed input" % (fn_path, variant, npaths), fn)


def progress_blocks(fn, consuming):
    out = set()
    for bi, b in enumerate(fn.blocks):
        if b.get("cleanup"):
            continue
        t = b["term"]
        if t["k"] == "call":
            names = F.callee_names(t)
            if any(n in names for n in consuming):
                out.add(bi)
                continue
            if "std::iter::Iterator::next" in names:
                st = (t["callee"].get("substs") or [""])[0]
                if any(st.startswith(x) for x in FINITE_ITER_SELF):
                    out.add(bi)
                    continue
        for s in b["stmts"]:
            if s["k"] == "assign":
                pl = s["place"]
                if any(isinstance(e, dict) and e.get("n") == "index" and e.get("adt") == "parse::read::SliceRead"
                       for e in pl["p"]):
                    out.add(bi)
    return out


def loops_check(rule, crate, fn_pred, consuming, exceptions):
    n = 0
    for fn in crate.fns:
        if not fn_pred(fn):
            continue
        loops = cfg.natural_loops(fn)
        if not loops:
            continue
        prog = progress_blocks(fn, consuming)
        for head, body in sorted(loops.items()):
            n += 1
            rest = body - prog
            succ = lambda x: [s for s in fn.succ_map()[x] if s in rest]
            # a cycle through the header that avoids every progress block?
            cyc = cfg.find_cycle(rest, succ)
            line = fn.blocks[head]["term"].get("line")
            key = "%s | loop" % fn.path
            if cyc is None:
                rule.ok("%s: loop at line %s: every cycle passes a consuming call / index advance / finite "
                        "iterator step" % (fn.path, line), fn, line)
            elif key in exceptions and exceptions[key]["count"] > 0:
                exceptions[key]["count"] -= 1
                rule.ok("%s: loop at line %s (table: %s)" % (fn.path, line, exceptions[key]["reason"]), fn, line)
            else:
                lines = sorted({fn.blocks[x]["term"].get("line") for x in cyc if fn.blocks[x]["term"].get("line", 0) > 1})
                rule.violation(fn.path, "loop-without-progress",
                               "%s: the loop at line %s has a cycle (lines %s) on which no input is consumed, no "
                               "index advances and no finite iterator steps: it can spin forever" % (fn.path, line, lines),
                               fn.loc(line))
    return n
