"""R-PROGRESS: every lexer loop makes progress; successful items consume input."""
from . import cfg, common, facts as F, lex, sim
from .sim import Adt, Opq, UNK

PRIMS = (
    "parse::read::Read::next", "parse::read::Read::discard",
    "parse::Parser::<R>::eat_char", "parse::Parser::<R>::next_char", "parse::Parser::<R>::next_char_or_null",
    "parse::read::next_or_eof", "parse::read::next_or_eof_char",
)
_SLICE_ITERS = ("std::slice::Iter<", "std::slice::IterMut<", "std::slice::Chunks<", "std::slice::ChunksExact<",
                "std::slice::RChunks<", "std::slice::Windows<", "std::str::Bytes<", "std::str::Chars<",
                "std::str::CharIndices<", "std::vec::IntoIter<", "std::array::IntoIter<")
# iterators over a finite in-memory sequence, bare or under an adaptor that only relabels / pairs their items
FINITE_ITER_SELF = _SLICE_ITERS + ("std::ops::Range<", "std::ops::RangeInclusive<") + tuple(
    "%s<%s" % (ad, it) for ad in ("std::iter::Enumerate", "std::iter::Zip", "std::iter::Rev", "std::iter::Copied",
                                  "std::iter::Cloned", "std::iter::Skip", "std::iter::Take", "std::iter::Peekable")
    for it in _SLICE_ITERS + ("std::ops::Range<",))

IMPLS = {
    "io": {
        "parse::read::Read::parse_symbol": "<parse::read::IoRead<R> as parse::read::Read<'de>>::parse_symbol",
    },
    "slice": {
        "parse::read::Read::parse_symbol": "<parse::read::SliceRead<'a> as parse::read::Read<'a>>::parse_symbol",
    },
}


def sticky_reader_hook(d, crate, variant, inline_all):
    """peek keeps returning the injected byte until it is consumed; any read after a
    consumption stops the path (progress has been proven for that path)."""

    def hook(S, fn, bb, t, args, path):
        names = F.callee_names(t)
        if lex.consumed(path) and (lex.is_read_call(names) or any(n in names for n in lex.DISCARDS)):
            return ("stop", "consumed")
        for tr, impl in IMPLS[variant].items():
            if tr in names and "resolved" not in t["callee"]:
                f = crate.fn(impl)
                if f is not None:
                    return ("inline", f)
        if lex.is_read_call(names):
            opt = lex.some(d) if d is not None else lex.none()
            if lex.SLICE_PEEK in names:
                return ("value", opt)
            return ("value", lex.ok(opt))
        return None

    return hook


def ok_consuming(rule, crate, fn_path, mode, label):
    """Every path of `fn_path` that returns success has consumed at least one byte.

    mode 'some': success = Ok(Some(_)); mode 'ok': success = Ok(_)."""
    fn = crate.fn(fn_path)
    if fn is None:
        rule.anchor_missing(fn_path)
        return
    inl = lambda a, b: b.crate == "lexpr" and (b.file.endswith("parse/mod.rs") or b.file.endswith("parse/read.rs"))
    for variant in ("io", "slice"):
        bad = {}
        inexact = {}
        npaths = 0
        for d in list(range(256)) + [None]:
            S = sim.Sim([crate], hooks={"call": sticky_reader_hook(d, crate, variant, True)}, inline=inl,
                        max_depth=9, max_paths=20000)
            try:
                paths = S.run(fn)
            except sim.Limit as e:
                inexact[d] = str(e)
                continue
            for p in paths:
                npaths += 1
                if p.end != "return":
                    continue
                r = p.ret
                succ = None
                if isinstance(r, Adt) and r.adt.endswith("Result"):
                    if r.variant == 1:
                        succ = False
                    elif mode == "ok":
                        succ = True
                    else:
                        o = r.fields[0]
                        if isinstance(o, Adt) and o.adt.endswith("Option"):
                            succ = o.variant == 1
                if succ is None:
                    inexact[d] = "return value not determined: %r" % (r,)
                    continue
                if succ and not lex.consumed(p):
                    bad.setdefault(d, p)
        if inexact:
            rule.violation(fn_path, "inexact:%s" % variant,
                           "%s [%s reader]: the analysis could not determine the outcome for first bytes %s (%s); "
                           "failing closed" % (fn_path, variant, lex.fmt_bytes(inexact.keys()), list(inexact.values())[0]),
                           fn.loc())
        elif bad:
            rule.violation(fn_path, "succeeds-without-consuming:%s" % variant,
                           "%s [%s reader] can return success without consuming any input when the next byte is %s: "
                           "%s" % (fn_path, variant, lex.fmt_bytes(bad.keys()), label), fn.loc())
        else:
            rule.ok("%s [%s reader]: for each of the 257 first-byte cases (%d abstract paths) every successful "
                    "return consumed input" % (fn_path, variant, npaths), fn)


def counter_steps(fn):
    """Blocks in which a local counter that some loop test bounds from above is stepped: `c = c + k` (k a positive
    constant, directly or through the checked-add tuple) where `c` is also compared with `<` / `<=` / `!=` against a
    constant or a value defined once.  A cycle through such a block runs at most bound / k times."""
    from . import common
    defs = common.defs_of(fn)
    out = set()
    # candidates: assignments c = Add(c, k) | c = move (tmp.0) with tmp = AddWithOverflow(c, k)
    steps = {}
    for bi, b in enumerate(fn.blocks):
        if b.get("cleanup"):
            continue
        for st in b["stmts"]:
            if st["k"] != "assign" or st["place"]["p"]:
                continue
            c = st["place"]["l"]
            rv = st["rv"]
            src = None
            if rv["k"] == "bin" and rv["op"] in ("Add", "AddUnchecked"):
                src = rv
            elif rv["k"] == "use" and rv["op"].get("c") in ("copy", "move") and len(rv["op"]["pl"]["p"]) == 1 \
                    and isinstance(rv["op"]["pl"]["p"][0], dict) and rv["op"]["pl"]["p"][0].get("f") == 0:
                ds = defs.get(rv["op"]["pl"]["l"], [])
                if len(ds) == 1 and ds[0][1] != "term" and ds[0][2]["k"] == "bin" and ds[0][2]["op"] == "AddWithOverflow":
                    src = ds[0][2]
            if src is None:
                continue
            a, k = src["a"], common.const_int(src["b"])
            if k is None or k <= 0 or a.get("c") not in ("copy", "move") or a["pl"]["p"] or a["pl"]["l"] != c:
                continue
            steps.setdefault(c, set()).add(bi)
    if not steps:
        return out
    # bounded from above by a loop test
    bounded = set()
    for b in fn.blocks:
        if b.get("cleanup"):
            continue
        for st in b["stmts"]:
            if st["k"] == "assign" and st["rv"]["k"] == "bin" and st["rv"]["op"] in ("Lt", "Le", "Gt", "Ge", "Ne"):
                x, y = st["rv"]["a"], st["rv"]["b"]
                def root(op):
                    # through single-definition copies (`_6 = copy _2; Lt(move _6, ..)`)
                    for _ in range(4):
                        if op.get("c") not in ("copy", "move") or op["pl"]["p"]:
                            return op
                        if op["pl"]["l"] in steps:
                            return op
                        ds = defs.get(op["pl"]["l"], [])
                        if len(ds) == 1 and ds[0][1] != "term" and ds[0][2]["k"] == "use":
                            op = ds[0][2]["op"]
                        else:
                            return op
                    return op
                x, y = root(x), root(y)
                for me, other in ((x, y), (y, x)):
                    if me.get("c") in ("copy", "move") and not me["pl"]["p"] and me["pl"]["l"] in steps:
                        ok = common.const_int(other) is not None
                        if not ok and other.get("c") in ("copy", "move") and not other["pl"]["p"]:
                            ok = len(defs.get(other["pl"]["l"], [])) <= 1 and other["pl"]["l"] not in steps
                        if ok:
                            bounded.add(me["pl"]["l"])
    for c in bounded:
        out |= steps[c]
    return out


def progress_blocks(fn, consuming):
    out = set(counter_steps(fn))
    for bi, b in enumerate(fn.blocks):
        if b.get("cleanup"):
            continue
        t = b["term"]
        if t["k"] == "call":
            names = F.callee_names(t)
            if any(n in names for n in consuming):
                out.add(bi)
                continue
            if "std::iter::Iterator::next" in names:
                st = (t["callee"].get("substs") or [""])[0]
                if any(st.startswith(x) for x in FINITE_ITER_SELF):
                    out.add(bi)
                    continue
        for s in b["stmts"]:
            if s["k"] == "assign":
                pl = s["place"]
                if any(isinstance(e, dict) and e.get("n") == "index" and e.get("adt") == "parse::read::SliceRead"
                       for e in pl["p"]):
                    out.add(bi)
    return out


def must_consume_fns(crate, fn_pred, consuming):
    """Local helpers every normal return of which is preceded by a consuming call (`fn eat_list_dot(&mut self)`
    = eat_char + peek): calling one is progress for the caller's loop.  Fixpoint over helpers of helpers."""
    consuming = list(consuming)
    found = set()
    for _round in range(4):
        new = set()
        for fn in crate.fns:
            if fn.kind == "closure" or fn.path in found or fn.path in consuming or not fn_pred(fn):
                continue
            if cfg.natural_loops(fn):
                continue
            prog = progress_blocks(fn, consuming)
            if not prog:
                continue
            rets = [bi for bi, b in enumerate(fn.blocks) if b["term"]["k"] == "return" and not fn.is_cleanup(bi)]
            # can a return be reached from the entry without passing a progress block?
            seen, work = set(), [0]
            escaped = False
            while work:
                x = work.pop()
                if x in seen or x in prog or fn.is_cleanup(x):
                    continue
                seen.add(x)
                if x in rets:
                    escaped = True
                    break
                work.extend(fn.succ_map()[x])
            if not escaped and rets:
                new.add(fn.path)
        if not new:
            break
        found |= new
        consuming += sorted(new)
    return found


def _switch_root(fn, defs, op):
    """Base local a switch operand is a plain copy of (through single-definition temporaries)."""
    for _ in range(8):
        if op.get("c") not in ("copy", "move") or op["pl"]["p"]:
            return None
        l = op["pl"]["l"]
        ds = defs.get(l, [])
        if len(ds) == 1 and ds[0][1] != "term" and ds[0][2]["k"] == "use" and ds[0][2]["op"].get("c") in ("copy", "move") \
                and not ds[0][2]["op"]["pl"]["p"]:
            op = ds[0][2]["op"]
            continue
        if len(ds) != 1:
            return None
        # the variant of an Option / Result local, whether read as a discriminant or through is_some()/is_none()
        if ds[0][1] != "term" and ds[0][2]["k"] == "discr" and not ds[0][2]["pl"]["p"]:
            return ("variant", ds[0][2]["pl"]["l"], False)
        if ds[0][1] == "term":
            t = ds[0][2]
            p = t["callee"].get("path", "")
            if p in ("std::option::Option::<T>::is_some", "std::option::Option::<T>::is_none",
                     "std::result::Result::<T, E>::is_ok", "std::result::Result::<T, E>::is_err") and t["args"]:
                o = common.origin(fn, defs, t["args"][0])
                base = None
                if o["k"] == "place" and not [e for e in o["pl"]["p"] if e != "*"]:
                    base = o["pl"]["l"]
                elif o["k"] in ("call", "multi", "agg", "other"):
                    a = t["args"][0]
                    # `&local`: the reference's single definition
                    rl = common.place_local(a)
                    rd = defs.get(rl, []) if rl is not None else []
                    if len(rd) == 1 and rd[0][1] != "term" and rd[0][2]["k"] == "ref" and not rd[0][2]["pl"]["p"]:
                        base = rd[0][2]["pl"]["l"]
                if base is not None:
                    # Option: None = 0, Some = 1 (is_some: same, is_none: flipped); Result: Ok = 0 (is_ok: flipped)
                    flip = p.endswith("is_none") or p.endswith("is_ok")
                    return ("variant", base, flip)
            return None
        return l
    return None


def feasible_cycle(fn, blocks, head, cap=20000):
    """A simple cycle through `head` inside `blocks` whose branch decisions on one and the same single-assignment
    local agree, or None.  (Depth-first enumeration; gives up - returning the last candidate - after `cap` steps.)"""
    defs = common.defs_of(fn)
    sm = fn.succ_map()
    steps = [0]
    roots = {}
    for x in blocks:
        t = fn.blocks[x]["term"]
        if t["k"] == "switch":
            r = _switch_root(fn, defs, t["op"])
            if r is not None:
                roots[x] = r

    def decision(x, nxt):
        t = fn.blocks[x]["term"]
        flip = isinstance(roots[x], tuple) and roots[x][2]
        fv = (lambda v: 1 - v if v in (0, 1) else v) if flip else (lambda v: v)
        vals = [v for v, tg in t["targets"] if tg == nxt]
        if nxt == t["otherwise"] and not vals:
            tv = frozenset(fv(v) for v, _ in t["targets"])
            if isinstance(roots[x], tuple) and len(tv) == 1 and next(iter(tv)) in (0, 1):
                return ("is", 1 - next(iter(tv)))        # two-variant enum / bool: not 0 means 1
            return ("not", tv)
        if len(vals) == 1 and nxt != t["otherwise"]:
            return ("is", fv(vals[0]))
        return None

    def consistent(known, root, d):
        for k in known.get(root, ()):
            if k[0] == "is" and d[0] == "is" and k[1] != d[1]:
                return False
            if k[0] == "is" and d[0] == "not" and k[1] in d[1]:
                return False
            if k[0] == "not" and d[0] == "is" and d[1] in k[1]:
                return False
        return True

    last = [None]

    def dfs(x, pathl, onpath, known):
        steps[0] += 1
        if steps[0] > cap:
            return last[0] or pathl
        for nxt in sm[x]:
            if nxt not in blocks:
                continue
            k2 = known
            if x in roots:
                d = decision(x, nxt)
                if d is not None:
                    rk = roots[x][:2] if isinstance(roots[x], tuple) else roots[x]
                    if not consistent(known, rk, d):
                        continue
                    k2 = dict(known)
                    k2[rk] = known.get(rk, ()) + (d,)
            if nxt == head:
                return pathl + [head]
            if nxt in onpath:
                continue
            r = dfs(nxt, pathl + [nxt], onpath | {nxt}, k2)
            if r is not None:
                return r
        return None

    return dfs(head, [head], {head}, {})


def feasible_path(fn, start, goal, cap=20000, avoid=()):
    """Is there a path from block `start` to block `goal` whose branch decisions are consistent: the value of a
    boolean / integer temporary assigned a constant on the path (`_t = const true` in one arm of a `matches!`)
    decides later switches on it, and repeated tests of one single-assignment local agree?"""
    defs = common.defs_of(fn)
    sm = fn.succ_map()
    steps = [0]

    def consts_in(x, vals):
        out = None
        for st in fn.blocks[x]["stmts"]:
            if st["k"] == "assign" and not st["place"]["p"]:
                l = st["place"]["l"]
                c = common.const_int(st["rv"]["op"]) if st["rv"]["k"] == "use" else None
                if out is None:
                    out = dict(vals)
                if c is not None:
                    out[l] = c
                else:
                    out.pop(l, None)
        return out if out is not None else vals

    def sw_local(t):
        op = t["op"]
        for _ in range(6):
            if op.get("c") not in ("copy", "move") or op["pl"]["p"]:
                return None
            l = op["pl"]["l"]
            ds = defs.get(l, [])
            if len(ds) == 1 and ds[0][1] != "term" and ds[0][2]["k"] == "use" and ds[0][2]["op"].get("c") in ("copy", "move") \
                    and not ds[0][2]["op"]["pl"]["p"]:
                op = ds[0][2]["op"]
                continue
            return l
        return None

    def dfs(x, onpath, vals):
        steps[0] += 1
        if steps[0] > cap:
            return True           # give up: assume feasible
        if x == goal:
            return True
        vals = consts_in(x, vals)
        t = fn.blocks[x]["term"]
        succs = [s2 for s2 in sm[x] if not fn.is_cleanup(s2)]
        if t["k"] == "switch":
            l = sw_local(t)
            if l is not None and l in vals:
                v = vals[l]
                tg = t["otherwise"]
                for val, tgt in t["targets"]:
                    if val == v:
                        tg = tgt
                succs = [tg]
        for nxt in succs:
            if nxt in onpath or nxt in avoid:
                continue
            if dfs(nxt, onpath | {nxt}, vals):
                return True
        return False

    return dfs(start, {start}, {})


def iteration_consumes(crate, fn, head, ok_consuming_fns):
    """Fallback for a loop whose cycles are not all marked structurally: one iteration, from the loop header back to
    it, is evaluated for every first byte (and end of input) with the sticky-peek reader model, all locals unknown.
    Calls of functions proven to consume on success are explored twice: as a failure (the error continuation), and as
    the end of the path (a success is progress).  Returns None if every way back to the header has consumed input,
    else a description of a witness."""
    inl = lex.helper_inline(crate)
    for variant in ("io",):
        for d in list(range(256)) + [None]:
            for ok_is_progress in (True, False):
                base = sticky_reader_hook(d, crate, variant, True)

                def hook(S, f, bb, t, args, path, base=base, ok_is_progress=ok_is_progress):
                    names = F.callee_names(t)
                    if any(n in names for n in ok_consuming_fns):
                        if ok_is_progress:
                            return ("stop", "consumed")
                        return ("value", Adt("std::result::Result", 1, [sim.UNK]))
                    return base(S, f, bb, t, args, path)

                for tyenv in lex.type_instances(crate, fn):
                    S = sim.Sim([crate], hooks={"call": hook}, inline=inl, max_depth=6, max_paths=6000, max_visits=1)
                    S._tyenv = [dict(tyenv)]
                    try:
                        paths = S.run(fn, start=head)
                    except sim.Limit:
                        return "path limit for first byte %s" % lex.fmt_bytes([d])
                    for p in paths:
                        if p.end == "loop" and getattr(p, "loop_header", (None, None))[1] == head and not lex.consumed(p):
                            return "with next byte %s an iteration returns to the loop head without consuming" % lex.fmt_bytes([d])
    return None


def loops_check(rule, crate, fn_pred, consuming, exceptions):
    n = 0
    helpers = must_consume_fns(crate, fn_pred, consuming)
    if helpers:
        rule.note("helpers that consume input on every return: %s" % sorted(x.rsplit("::", 1)[-1] for x in helpers))
    consuming = list(consuming) + sorted(helpers)
    for fn in crate.fns:
        if not fn_pred(fn):
            continue
        loops = cfg.natural_loops(fn)
        if not loops:
            continue
        prog = progress_blocks(fn, consuming)
        for head, body in sorted(loops.items()):
            n += 1
            rest = body - prog
            succ = lambda x: [s for s in fn.succ_map()[x] if s in rest]
            # a cycle through the header that avoids every progress block?
            cyc = cfg.find_cycle(rest, succ)
            if cyc is not None:
                # the cycle found may be infeasible: it may take the `true` edge of one test of a flag and the
                # `false` edge of another test of the same flag.  Look for a cycle with consistent decisions.
                cyc = feasible_cycle(fn, rest, head)
            line = fn.blocks[head]["term"].get("line")
            key = "%s | loop" % fn.path
            if cyc is not None and not (key in exceptions and exceptions[key]["count"] > 0):
                why = iteration_consumes(crate, fn, head, [c for c in consuming if c not in PRIMS])
                if why is None:
                    rule.ok("%s: loop at line %s: every iteration consumes input (evaluated for all 257 next-byte cases)"
                            % (fn.path, line), fn, line)
                    continue
            if cyc is None:
                rule.ok("%s: loop at line %s: every cycle passes a consuming call / index advance / finite "
                        "iterator step" % (fn.path, line), fn, line)
            elif key in exceptions and exceptions[key]["count"] > 0:
                exceptions[key]["count"] -= 1
                rule.ok("%s: loop at line %s (table: %s)" % (fn.path, line, exceptions[key]["reason"]), fn, line)
            else:
                lines = sorted({fn.blocks[x]["term"].get("line") for x in cyc if fn.blocks[x]["term"].get("line", 0) > 1})
                rule.violation(fn.path, "loop-without-progress",
                               "%s: the loop at line %s has a cycle (lines %s) on which no input is consumed, no "
                               "index advances and no finite iterator steps: it can spin forever" % (fn.path, line, lines),
                               fn.loc(line))
    return n
