//! E4: compile-fail witnesses for the type-level remainder of C17.
//!
//! Each `compile_fail,E0xxx` block is paired with a compiling twin that differs
//! only in the offending line, so that a witness whose path is merely wrong
//! cannot pass.  Run with `cargo +nightly test --doc` (error codes are only
//! checked on nightly).

/// A `StrRead` cannot be made from raw bytes.
///
/// ```compile_fail,E0308
/// let bytes: &[u8] = b"\xff";
/// let _r = lexpr::parse::StrRead::new(bytes);
/// ```
///
/// Twin (a `&str` is accepted):
///
/// ```
/// let s: &str = "x";
/// let _r = lexpr::parse::StrRead::new(s);
/// ```
pub struct StrReadFromBytes;

/// The delegate of a `StrRead` is private: it cannot be built around an
/// arbitrary `SliceRead` from outside the crate.
///
/// ```compile_fail,E0451
/// let d = lexpr::parse::SliceRead::new(b"\xff");
/// let _r = lexpr::parse::StrRead { delegate: d };
/// ```
///
/// Twin (building the `SliceRead` itself is fine):
///
/// ```
/// let d = lexpr::parse::SliceRead::new(b"\xff");
/// let _r = d;
/// ```
pub struct StrReadDelegatePrivate;

/// `Value::String` holds a `Box<str>`: bytes cannot be put into it.
///
/// ```compile_fail,E0308
/// let b: Box<[u8]> = vec![0xffu8].into_boxed_slice();
/// let _v = lexpr::Value::String(b);
/// ```
///
/// Twin:
///
/// ```
/// let b: Box<str> = "x".into();
/// let _v = lexpr::Value::String(b);
/// ```
pub struct ValueStringIsStr;
