#!/bin/sh
# Build the verification framework from files on disk only (offline).
set -e
cd "$(dirname "$0")"
export CARGO_NET_OFFLINE=true
(cd tools/mirfacts && cargo build --release --offline)
python3 -m compileall -q rules >/dev/null
mkdir -p evidence .work
echo "setup ok"
